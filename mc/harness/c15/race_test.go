package c15

// TestRacePass: the separate free-running pass (built with -race; bin/check runs it in BOTH tiers, see RACE_QUICK).
// The fenced enumeration in c15_test.go drives ONE receive loop with one datagram at a time. What it cannot
// show is state shared between activities of the listener that overlap in time. This pass produces the overlap
// the public API allows: the listener is restarted (Stop, Start) while a handler is still busy with a request,
// after which several clients send authentic requests concurrently. (Stop() does not wait for the receive
// loop, and the loop of the first Start() goes on serving once Start() has set the running flag again.)
//
// Invariants, all from positive evidence (never from the absence of a reply within some time):
//   - the listener must not log "Invalid authenticator" / a parse failure: every datagram sent is authentic;
//   - every reply that arrives carries the request's identifier, a code of its family and a Response
//     Authenticator that verifies against the request.
// The race detector supplies the rest: unsynchronised state shared by the overlapping activities.
// The harness releases the busy handler only after Start() has returned, so the listener's own re-read of its
// socket field is ordered after Start()'s write and is not what this pass reports.

import (
	"context"
	"fmt"
	"net"
	"sync"
	"sync/atomic"
	"testing"
	"time"

	"github.com/codelaboratoryltd/bng/pkg/radius"
	"go.uber.org/zap"
	"go.uber.org/zap/zapcore"
)

type raceLog struct {
	mu  sync.Mutex
	bad []string
	n   atomic.Int64
}

func (c *raceLog) Enabled(zapcore.Level) bool        { return true }
func (c *raceLog) With([]zapcore.Field) zapcore.Core { return c }
func (c *raceLog) Sync() error                       { return nil }
func (c *raceLog) Check(ent zapcore.Entry, ce *zapcore.CheckedEntry) *zapcore.CheckedEntry {
	if ent.Level == zapcore.WarnLevel || ent.Level == zapcore.DebugLevel {
		return ce.AddCore(ent, c)
	}
	return ce
}
func (c *raceLog) Write(ent zapcore.Entry, _ []zapcore.Field) error {
	switch ent.Message {
	case "Invalid authenticator from", "Failed to parse attributes", "Unknown RADIUS code":
		c.n.Add(1)
		c.mu.Lock()
		if len(c.bad) < 20 {
			c.bad = append(c.bad, ent.Message)
		}
		c.mu.Unlock()
	}
	return nil
}

func TestRacePass(t *testing.T) {
	secret := []byte("race-pass-secret")
	rounds, clients, perClient := 6, 6, 60
	var sent, answered, fails atomic.Int64
	fail := func(f string, a ...any) {
		if fails.Add(1) <= 10 {
			fmt.Printf("RACEPASS-INVARIANT-FAIL "+f+"\n", a...)
		}
	}
	for round := 0; round < rounds; round++ {
		lg := &raceLog{}
		srv, err := radius.NewCoAServer(radius.CoAServerConfig{Address: "127.0.0.1:0", Secret: string(secret)}, zap.New(lg))
		if err != nil {
			t.Fatal(err)
		}
		busy := make(chan struct{}, 4)
		release := make(chan struct{})
		srv.SetCoAHandler(func(ctx context.Context, req *radius.CoARequest) *radius.CoAResponse {
			if req.SessionID == slowSession {
				busy <- struct{}{}
				<-release
			}
			return &radius.CoAResponse{Success: req.FilterID != "", ErrorCause: 503, Message: "session " + req.SessionID}
		})
		srv.SetDisconnectHandler(func(ctx context.Context, req *radius.DisconnectRequest) *radius.DisconnectResponse {
			return &radius.DisconnectResponse{Success: req.SessionID == liveSession, ErrorCause: 503, Message: "session " + req.SessionID}
		})
		ctx, cancel := context.WithCancel(context.Background())
		if err := srv.Start(ctx); err != nil {
			t.Fatal(err)
		}
		// one request whose handler stays busy across the restart
		c0, err := net.DialUDP("udp4", nil, srv.VerifCoAAddr().(*net.UDPAddr))
		if err != nil {
			t.Fatal(err)
		}
		c0.Write(buildRequest(43, 9, []attr{{44, []byte(slowSession)}}, secret))
		select {
		case <-busy:
		case <-time.After(20 * time.Second):
			fmt.Println("RACEPASS-NOTE the slow request never reached its handler; round skipped")
			cancel()
			srv.Stop()
			c0.Close()
			continue
		}
		srv.Stop()
		if err := srv.Start(ctx); err != nil {
			t.Fatal(err)
		}
		addr := srv.VerifCoAAddr().(*net.UDPAddr)
		close(release) // after Start(): orders the first loop's re-read of the socket field after Start()'s write
		var wg sync.WaitGroup
		for c := 0; c < clients; c++ {
			c := c
			wg.Add(1)
			go func() {
				defer wg.Done()
				conn, err := net.DialUDP("udp4", nil, addr)
				if err != nil {
					return
				}
				defer conn.Close()
				buf := make([]byte, 4096)
				for k := 0; k < perClient; k++ {
					var req []byte
					id := byte(k*7 + c)
					switch k % 3 {
					case 0:
						req = buildRequest(43, id, []attr{{1, []byte(fmt.Sprintf("user-%d-%d", c, k))}, {44, []byte(liveSession)}, {11, []byte("gold")}}, secret)
					case 1:
						req = buildRequest(40, id, []attr{{44, []byte(liveSession)}}, secret)
					default:
						req = buildRequest(40, id, []attr{{44, rpt('x', 20+(k+c)%200)}}, secret)
					}
					if _, err := conn.Write(req); err != nil {
						return
					}
					sent.Add(1)
					if fails.Load() > 0 || lg.n.Load() > 0 {
						return // verdict reached; no need to go on
					}
					conn.SetReadDeadline(time.Now().Add(3 * time.Second)) // pacing only: a missing reply is no verdict
					n, err := conn.Read(buf)
					if err != nil {
						continue // no reply seen: not a verdict by itself (the listener's own log is)
					}
					answered.Add(1)
					r := buf[:n]
					ack, nak := byte(44), byte(45)
					if req[0] == 40 {
						ack, nak = 41, 42
					}
					switch {
					case n < 20 || r[1] != req[1]:
						fail("round %d client %d request %d: reply %x does not carry the request's identifier %d", round, c, k, r[:min(n, 24)], req[1])
					case r[0] != ack && r[0] != nak:
						fail("round %d client %d request %d: reply code %d to request code %d", round, c, k, r[0], req[0])
					case !respAuthOK(r, req, secret):
						fail("round %d client %d request %d: Response Authenticator does not verify against the request (reply %x...)", round, c, k, r[:24])
					}
				}
			}()
		}
		wg.Wait()
		cancel()
		srv.Stop()
		c0.Close()
		lg.mu.Lock()
		for _, m := range lg.bad {
			fail("round %d: the listener logged %q although every datagram sent was an authentic request", round, m)
		}
		lg.mu.Unlock()
	}
	fmt.Printf("RACEPASS executions=%d answered=%d invariant-failures=%d\n", sent.Load(), answered.Load(), fails.Load())
}
