package c06

import (
	"bufio"
	"fmt"
	"os"
	"reflect"
	"regexp"
	"strconv"
	"strings"
)

// Leaf is one scalar (or scalar array) field at a byte offset.
type Leaf struct {
	Off, Size, Elem int // Size = total bytes, Elem = element width
	Name            string
}

type Record struct {
	Name   string
	Size   int
	Leaves []Leaf
}

var scalarSize = map[string]int{
	"__u8": 1, "__s8": 1, "char": 1, "unsigned char": 1, "_Bool": 1,
	"__u16": 2, "__be16": 2, "__s16": 2, "__le16": 2, "__sum16": 2, "unsigned short": 2, "short": 2,
	"__u32": 4, "__be32": 4, "__s32": 4, "__le32": 4, "__wsum": 4, "int": 4, "unsigned int": 4,
	"__u64": 8, "__be64": 8, "__s64": 8, "__le64": 8, "unsigned long long": 8, "long long": 8, "unsigned long": 8, "long": 8,
}

var lineRe = regexp.MustCompile(`^\s*(\d+)(?::[\d-]+)? \|( +)(.*)$`)
var sizeRe = regexp.MustCompile(`\[sizeof=(\d+)`)
var arrRe = regexp.MustCompile(`^(.*?)\[(\d+)\]$`)

// ParseLayouts reads clang -fdump-record-layouts output.
func ParseLayouts(path string) (map[string]*Record, error) {
	f, err := os.Open(path)
	if err != nil {
		return nil, err
	}
	defer f.Close()
	out := map[string]*Record{}
	type raw struct {
		off, depth int
		text       string
	}
	var cur *Record
	var lines []raw
	flush := func() {
		if cur == nil {
			return
		}
		for i, l := range lines {
			// container if the next line is deeper
			if i+1 < len(lines) && lines[i+1].depth > l.depth {
				continue
			}
			// "type name" — type may contain spaces; name is the last token
			sp := strings.LastIndex(l.text, " ")
			if sp < 0 {
				continue
			}
			ty, name := strings.TrimSpace(l.text[:sp]), l.text[sp+1:]
			count := 1
			if m := arrRe.FindStringSubmatch(ty); m != nil {
				ty = strings.TrimSpace(m[1])
				count, _ = strconv.Atoi(m[2])
			}
			es, ok := scalarSize[ty]
			if !ok {
				es = -1 // unknown scalar type (enum, pointer...) — flagged by the comparer if it matters
				if strings.HasPrefix(ty, "enum ") {
					es = 4
				}
			}
			cur.Leaves = append(cur.Leaves, Leaf{Off: l.off, Size: es * count, Elem: es, Name: name})
		}
		out[cur.Name] = cur
		cur, lines = nil, nil
	}
	sc := bufio.NewScanner(f)
	sc.Buffer(make([]byte, 1<<20), 1<<22)
	expectHeader := false
	for sc.Scan() {
		line := sc.Text()
		if strings.HasPrefix(line, "*** Dumping AST Record Layout") {
			flush()
			expectHeader = true
			continue
		}
		if m := sizeRe.FindStringSubmatch(line); m != nil && cur != nil {
			cur.Size, _ = strconv.Atoi(m[1])
			flush()
			continue
		}
		m := lineRe.FindStringSubmatch(line)
		if m == nil {
			continue
		}
		off, _ := strconv.Atoi(m[1])
		if expectHeader {
			expectHeader = false
			name := strings.TrimSpace(m[3])
			name = strings.TrimPrefix(name, "struct ")
			cur = &Record{Name: name}
			continue
		}
		if cur != nil {
			lines = append(lines, raw{off: off, depth: len(m[2]), text: strings.TrimSpace(m[3])})
		}
	}
	flush()
	return out, sc.Err()
}

// GoLayout computes the byte layout encoding/binary (and therefore cilium/ebpf's
// marshaller) produces for a fixed-size Go value: fields in order, no implicit
// padding, blank fields emitted as zero bytes.
func GoLayout(t reflect.Type) (*Record, error) {
	r := &Record{Name: t.String()}
	off := 0
	var walk func(t reflect.Type, name string) error
	walk = func(t reflect.Type, name string) error {
		switch t.Kind() {
		case reflect.Struct:
			for i := 0; i < t.NumField(); i++ {
				f := t.Field(i)
				if err := walk(f.Type, name+"."+f.Name); err != nil {
					return err
				}
			}
		case reflect.Array:
			e := t.Elem()
			if e.Kind() == reflect.Struct || e.Kind() == reflect.Array {
				for i := 0; i < t.Len(); i++ {
					if err := walk(e, fmt.Sprintf("%s[%d]", name, i)); err != nil {
						return err
					}
				}
				return nil
			}
			es := int(e.Size())
			r.Leaves = append(r.Leaves, Leaf{Off: off, Size: es * t.Len(), Elem: es, Name: strings.TrimPrefix(name, ".")})
			off += es * t.Len()
		case reflect.Bool, reflect.Int8, reflect.Uint8, reflect.Int16, reflect.Uint16, reflect.Int32, reflect.Uint32, reflect.Int64, reflect.Uint64:
			es := int(t.Size())
			r.Leaves = append(r.Leaves, Leaf{Off: off, Size: es, Elem: es, Name: strings.TrimPrefix(name, ".")})
			off += es
		default:
			return fmt.Errorf("%s: kind %s has no fixed binary encoding", name, t.Kind())
		}
		return nil
	}
	if err := walk(t, ""); err != nil {
		return nil, err
	}
	r.Size = off
	return r, nil
}

// Compare returns the list of layout differences between a Go type and a C record.
func Compare(g, c *Record) []string {
	var d []string
	if g.Size != c.Size {
		d = append(d, fmt.Sprintf("size: Go %s encodes to %d bytes, C struct %s is %d bytes", g.Name, g.Size, c.Name, c.Size))
	}
	// padding (Go blank fields, C members named _pad*/_*) only has to add up: named fields are compared
	// position by position and the totals must agree, which pins every padding region.
	named := func(ls []Leaf) []Leaf {
		var o []Leaf
		for _, l := range ls {
			n := l.Name
			if i := strings.LastIndex(n, "."); i >= 0 {
				n = n[i+1:]
			}
			if strings.HasPrefix(n, "_") {
				continue
			}
			o = append(o, l)
		}
		return o
	}
	gn, cn := named(g.Leaves), named(c.Leaves)
	n := len(gn)
	if len(cn) != n {
		d = append(d, fmt.Sprintf("field count: Go %d, C %d", len(gn), len(cn)))
		if len(cn) < n {
			n = len(cn)
		}
	}
	// same layout, different MEANING: a field that exists under the same name on both sides must sit at the same
	// place (two equally sized neighbours swapped on one side keep every offset/size pair intact). Names are
	// compared after normalisation (case, underscores); a name that exists on one side only says nothing.
	canon := func(s string) string { return strings.ToLower(strings.ReplaceAll(s, "_", "")) }
	cidx, dup := map[string]int{}, map[string]bool{}
	for j, cl := range cn {
		k := canon(cl.Name)
		if _, seen := cidx[k]; seen {
			dup[k] = true
		}
		cidx[k] = j
	}
	for i, gl := range gn {
		k := canon(gl.Name)
		if j, ok := cidx[k]; ok && !dup[k] && j != i && j < len(cn) && (i >= len(cn) || canon(cn[i].Name) != k) && cn[j].Off != gl.Off {
			d = append(d, fmt.Sprintf("field order: Go %s is at offset %d, the C member of the same name (%s) is at offset %d: the two sides read each other's neighbours", gl.Name, gl.Off, cn[j].Name, cn[j].Off))
		}
	}
	for i := 0; i < n; i++ {
		gl, cl := gn[i], cn[i]
		if gl.Off != cl.Off || gl.Size != cl.Size || gl.Elem != cl.Elem {
			d = append(d, fmt.Sprintf("field %d: Go %s off=%d size=%d elem=%d vs C %s off=%d size=%d elem=%d", i, gl.Name, gl.Off, gl.Size, gl.Elem, cl.Name, cl.Off, cl.Size, cl.Elem))
		}
	}
	return d
}
