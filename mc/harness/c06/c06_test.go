// C06 — Userspace and eBPF programs agree on every map layout and key encoding.
//
// Part A (static, complete): every (Go type, C struct) pair used as a map key or
// value, field by field: offset, width, count, total size == C-declared map
// key/value size. C side from clang's record layouts of the UNCHANGED sources,
// Go side from reflection under encoding/binary rules (what cilium/ebpf emits).
// A guard fails the check (exit 2) when a SEC(".maps") object or a *ebpf.Map
// field is missing from the table.
//
// Part B/C (behavioural, executed): the real control-plane managers write into
// REAL kernel maps created from the compiled objects' BTF (so the kernel and
// cilium/ebpf enforce the C-declared sizes), and the real BPF bytecode is run in
// the kernel (BPF_PROG_TEST_RUN) on frames carrying the corresponding address:
// the entry must be found by the program's own key derivation and the values it
// copies into packets must be the bytes the control plane meant. Inputs: the
// positional basis of each derivation (every byte position x 256 values on two
// backgrounds), circuit-id lengths 0..64, VLAN boundary values.
package c06

import (
	"encoding/binary"
	"encoding/json"
	"fmt"
	"net"
	"os"
	"path/filepath"
	"reflect"
	"regexp"
	"sort"
	"strings"
	"testing"

	cebpf "github.com/cilium/ebpf"
	"github.com/codelaboratoryltd/bng/pkg/antispoof"
	"github.com/codelaboratoryltd/bng/pkg/ebpf"
	"github.com/codelaboratoryltd/bng/pkg/nat"
	"github.com/codelaboratoryltd/bng/pkg/qos"
	"github.com/codelaboratoryltd/bng/pkg/walledgarden"
	"go.uber.org/zap"

	"verif/nativebpf"
	"verif/report"
)

type pair struct {
	prog, cmap string // program source, C map name ("" = not a map value/key, e.g. ring buffer record)
	role       string // "key" | "value" | "record"
	gotype     reflect.Type
	cstruct    string // C struct name, or scalar C type
}

func T[X any]() reflect.Type { var x X; return reflect.TypeOf(x) }

type lpmKeyGo struct {
	Prefixlen uint32
	IP        uint32
}

// table: every shared map with the Go type the control plane uses for it.
var table = []pair{
	{"dhcp_fastpath", "subscriber_pools", "key", T[uint64](), "__u64"},
	{"dhcp_fastpath", "subscriber_pools", "value", T[ebpf.PoolAssignment](), "pool_assignment"},
	{"dhcp_fastpath", "vlan_subscriber_pools", "key", T[ebpf.VLANKey](), "vlan_key"},
	{"dhcp_fastpath", "vlan_subscriber_pools", "value", T[ebpf.PoolAssignment](), "pool_assignment"},
	{"dhcp_fastpath", "ip_pools", "key", T[uint32](), "__u32"},
	{"dhcp_fastpath", "ip_pools", "value", T[ebpf.IPPool](), "ip_pool"},
	{"dhcp_fastpath", "server_config", "key", T[uint32](), "__u32"},
	{"dhcp_fastpath", "server_config", "value", T[ebpf.ServerConfig](), "dhcp_server_config"},
	{"dhcp_fastpath", "stats_map", "key", T[uint32](), "__u32"},
	{"dhcp_fastpath", "stats_map", "value", T[ebpf.DHCPStats](), "dhcp_stats"},
	{"dhcp_fastpath", "circuit_id_map", "key", T[uint64](), "__u64"},
	{"dhcp_fastpath", "circuit_id_map", "value", T[uint64](), "__u64"},
	{"dhcp_fastpath", "circuit_id_subscribers", "key", T[ebpf.CircuitIDKey](), "circuit_id_key"},
	{"dhcp_fastpath", "circuit_id_subscribers", "value", T[ebpf.PoolAssignment](), "pool_assignment"},

	{"nat44", "subscriber_nat", "key", T[uint32](), "__u32"},
	{"nat44", "subscriber_nat", "value", T[nat.SubscriberNAT](), "subscriber_nat"},
	{"nat44", "nat_sessions", "value", T[nat.NATSession](), "nat_session"},
	{"nat44", "eim_table", "key", T[nat.EIMKey](), "eim_key"},
	{"nat44", "eim_table", "value", T[nat.EIMMapping](), "eim_mapping"},
	{"nat44", "nat_stats_map", "key", T[uint32](), "__u32"},
	{"nat44", "nat_stats_map", "value", T[nat.NATStats](), "nat_stats"},
	{"nat44", "nat_config_map", "key", T[uint32](), "__u32"},
	{"nat44", "nat_config_map", "value", T[nat.NATConfig](), "nat_config"},
	{"nat44", "alg_ports", "key", T[uint32](), "__u32"},
	{"nat44", "alg_ports", "value", T[nat.ALGConfig](), "alg_config"},
	{"nat44", "hairpin_ips", "key", T[uint32](), "__u32"},
	{"nat44", "hairpin_ips", "value", T[uint8](), "__u8"},
	{"nat44", "nat_log_rb", "record", T[nat.BPFLogEntry](), "nat_log_entry"},

	{"qos_ratelimit", "qos_egress", "key", T[uint32](), "__u32"},
	{"qos_ratelimit", "qos_egress", "value", T[qos.TokenBucket](), "token_bucket"},
	{"qos_ratelimit", "qos_ingress", "key", T[uint32](), "__u32"},
	{"qos_ratelimit", "qos_ingress", "value", T[qos.TokenBucket](), "token_bucket"},
	{"qos_ratelimit", "qos_stats_map", "key", T[uint32](), "__u32"},
	{"qos_ratelimit", "qos_stats_map", "value", T[qos.QoSStats](), "qos_stats"},

	{"antispoof", "subscriber_bindings", "key", T[uint64](), "__u64"},
	{"antispoof", "subscriber_bindings", "value", T[antispoof.SubscriberBinding](), "subscriber_binding"},
	{"antispoof", "antispoof_config", "key", T[uint32](), "__u32"},
	{"antispoof", "antispoof_config", "value", T[antispoof.Config](), "antispoof_config"},
	{"antispoof", "antispoof_stats", "key", T[uint32](), "__u32"},
	{"antispoof", "antispoof_stats", "value", T[antispoof.Stats](), "antispoof_stats"},
	{"antispoof", "spoof_events", "record", T[antispoof.SpoofEvent](), "spoof_event"},
	{"antispoof", "allowed_ranges_v4", "key", T[lpmKeyGo](), "lpm_key_v4"},
	{"antispoof", "allowed_ranges_v4", "value", T[uint8](), "__u8"},
}

// maps that exist only on the C side (the control plane never touches them) — listed so the guard knows about them
var cOnlyMaps = map[string]string{
	"nat44/nat_reverse": "kernel-internal reverse index", "nat44/nat_pool": "declared, not written by pkg/nat (pool is kept in Go)",
	"nat44/nat_private_ranges": "declared, unused by both sides",
}

var progSources = []string{"dhcp_fastpath", "antispoof", "qos_ratelimit", "nat44"}

func scalarRecord(ctype string) *Record {
	if n, ok := scalarSize[ctype]; ok {
		return &Record{Name: ctype, Size: n, Leaves: []Leaf{{0, n, n, ""}}}
	}
	return nil
}

func TestCheck(t *testing.T) {
	if *flagChild == "percpu" {
		childPerCPU(*flagChildDir)
		os.Exit(0)
	}
	run := report.New("C06", "exploration")
	run.Rule = "every (Go type, C struct) map key/value pair x every field (static); every control-plane write API into real kernel maps + in-kernel execution of the real bytecode on frames built from the same addresses, over the positional basis of each key derivation (byte position x 256 values x 2 backgrounds; circuit-id lengths 0..64; VLAN ids {0,1,100,4094,4095}); non-trivial = comparisons that reached a populated entry / a field"
	run.Assumptions = []string{"cilium/ebpf marshals fixed-size values with encoding/binary semantics in native byte order", "little-endian host as in production", "kernel BPF_PROG_TEST_RUN executes the same bytecode the attach point would"}
	dir, err := os.MkdirTemp(filepath.Join(nativebpf.Root(), ".work"), "c06-")
	if err != nil {
		os.MkdirAll(filepath.Join(nativebpf.Root(), ".work"), 0o755)
		dir, err = os.MkdirTemp(filepath.Join(nativebpf.Root(), ".work"), "c06-")
	}
	if err != nil {
		run.HarnessError(err.Error())
		os.Exit(run.Finish())
	}
	defer os.RemoveAll(dir)
	staticPart(run, dir)
	behaviouralPart(run, dir)
	perCPUPart(run, dir)
	os.RemoveAll(dir)
	os.Exit(run.Finish())
}

func classify(v *report.Violation) {
	d := v.Detail
	switch {
	case v.Kind == "ipv4-byte-order" && strings.Contains(d, "[confirmed: exact byte reversal]"):
		v.Class = "C06-K1-" + v.Site
	}
}

func viol(run *report.Run, part, kind, site, detail string, trace ...string) {
	v := report.Violation{Part: part, Kind: kind, Site: site, Detail: detail, Trace: trace}
	classify(&v)
	run.Violation(v)
}

// ---------------------------------------------------------------- Part A

func staticPart(run *report.Run, dir string) {
	out, err := execCmd(filepath.Join(nativebpf.Root(), "native", "layouts.sh"), dir, nativebpf.Repo())
	if err != nil {
		run.HarnessError("layouts.sh: " + err.Error() + "\n" + out)
		return
	}
	layouts := map[string]map[string]*Record{}
	cmaps := map[string]map[string]map[string]any{}
	for _, p := range progSources {
		l, err := ParseLayouts(filepath.Join(dir, "layout_"+p+".txt"))
		if err != nil {
			run.HarnessError(err.Error())
			return
		}
		layouts[p] = l
		b, _ := os.ReadFile(filepath.Join(dir, "maps_"+p+".json"))
		m := map[string]map[string]any{}
		json.Unmarshal(b, &m)
		cmaps[p] = m
	}
	// guard 1: every C map is in the table (or known C-only)
	inTable := map[string]bool{}
	for _, pr := range table {
		inTable[pr.prog+"/"+pr.cmap] = true
	}
	for p, ms := range cmaps {
		for name := range ms {
			if !inTable[p+"/"+name] && cOnlyMaps[p+"/"+name] == "" {
				run.HarnessError(fmt.Sprintf("map %s/%s is declared in bpf/%s.c but missing from the C06 pair table — update the table", p, name, p))
			}
		}
	}
	// guard 2: every *ebpf.Map field of the Go packages is known to this harness
	known := map[string]bool{"subscriberPools": true, "vlanSubscriberPools": true, "ipPools": true, "statsMap": true, "serverConfigMap": true, "circuitIDMap": true, "circuitIDSubscribers": true,
		"subscriberNAT": true, "natSessions": true, "natReverse": true, "natPool": true, "natStats": true, "natConfigMap": true, "eimTable": true, "hairpinIPs": true, "algPorts": true, "natLogRB": true,
		"qosEgress": true, "qosIngress": true, "qosStatsMap": true, "bindings": true, "config": true, "stats": true, "ranges": true,
		"subscriberMap": true, "allowedDestsMap": true}
	re := regexp.MustCompile(`(?m)^\s*(\w+)\s+\*ebpf\.Map\b`)
	for _, f := range []string{"pkg/ebpf/loader.go", "pkg/nat/manager.go", "pkg/qos/manager.go", "pkg/antispoof/manager.go", "pkg/walledgarden/manager.go"} {
		b, err := os.ReadFile(filepath.Join(nativebpf.Repo(), f))
		if err != nil {
			run.HarnessError(err.Error())
			continue
		}
		for _, m := range re.FindAllStringSubmatch(string(b), -1) {
			if !known[m[1]] {
				run.HarnessError(fmt.Sprintf("%s has *ebpf.Map field %q unknown to the C06 pair table — update the table", f, m[1]))
			}
		}
	}
	var fields, pairs int64
	for _, pr := range table {
		g, err := GoLayout(pr.gotype)
		if err != nil {
			run.HarnessError(err.Error())
			continue
		}
		c := layouts[pr.prog][pr.cstruct]
		if c == nil {
			c = scalarRecord(pr.cstruct)
		}
		if c == nil {
			run.HarnessError(fmt.Sprintf("no C layout for %s in %s", pr.cstruct, pr.prog))
			continue
		}
		part := "static:" + pr.prog + "/" + pr.cmap + "." + pr.role
		// the C map's declared key/value type must be the C struct of the pair
		if pr.role != "record" {
			decl, _ := cmaps[pr.prog][pr.cmap][pr.role].(string)
			want := pr.cstruct
			if _, sc := scalarSize[want]; !sc {
				want = "struct " + want
			}
			if decl != want {
				viol(run, part, "map-type", pr.cmap, fmt.Sprintf("C map %s declares %s %q, the control plane's Go type %s mirrors %q", pr.cmap, pr.role, decl, pr.gotype, want))
			}
		}
		diffs := Compare(g, c)
		if pr.role == "record" && len(diffs) == 1 && strings.HasPrefix(diffs[0], "size:") && c.Size > g.Size {
			// event records are read from a byte stream: trailing C alignment padding after the last field is not part of any field
			diffs = nil
		}
		for _, d := range diffs {
			viol(run, part, "layout", pr.cmap, fmt.Sprintf("Go %s vs C %s: %s", pr.gotype, pr.cstruct, d), "go="+fmt.Sprint(g.Leaves), "c="+fmt.Sprint(c.Leaves))
		}
		pairs++
		fields += int64(len(c.Leaves))
		if pairs <= 3 {
			run.Sample(map[string]any{"pair": part, "go": g, "c": c})
		}
	}
	// walledgarden: mirrored structs without a kernel counterpart in the tree — encoding must at least be fixed-size
	for _, ty := range []reflect.Type{T[walledgarden.WalledGardenEntry](), T[walledgarden.AllowedDestination]()} {
		if _, err := GoLayout(ty); err != nil {
			viol(run, "static:walledgarden", "layout", ty.String(), "not a fixed-size binary encoding: "+err.Error())
		}
		pairs++
	}
	run.AddPart(report.Part{Name: "static-layout", Engine: "D:finite-enumeration", Bound: fmt.Sprintf("%d pairs, %d C fields", pairs, fields), States: fields, Transitions: pairs, Exhaustive: true,
		Note: "walledgarden structs have no C program in the tree (maps are handed in by SetEBPFMaps): checked only for a fixed-size encoding"})
	run.AddEvals(pairs, fields)
}

// ---------------------------------------------------------------- Part B/C

type env struct {
	run  *report.Run
	k    map[string]*nativebpf.Kernel
	n    int64 // comparisons
	hits int64 // comparisons that reached a populated entry
}

func mac(i int) net.HardwareAddr { return net.HardwareAddr{0x02, 0, 0, 0, byte(i >> 8), byte(i)} }

// positional basis for IPv4: each byte position x values on two backgrounds
func ipBasis(thorough bool) []net.IP {
	var out []net.IP
	seen := map[string]bool{}
	vals := []int{0, 1, 2, 5, 10, 127, 128, 200, 254, 255}
	if thorough {
		vals = nil
		for v := 0; v < 256; v++ {
			vals = append(vals, v)
		}
	}
	// byte-palindromic addresses first: they are immune to the recorded byte-order finding, so everything
	// downstream of the key lookup (values copied into packets, port blocks, counters) is still exercised
	for _, pal := range [][4]byte{{10, 7, 7, 10}, {100, 64, 64, 100}, {10, 0, 0, 10}} {
		out = append(out, net.IPv4(pal[0], pal[1], pal[2], pal[3]).To4())
		seen[net.IP(pal[:]).String()] = true
	}
	for _, bg := range [][4]byte{{10, 20, 30, 40}, {100, 64, 3, 2}} {
		for pos := 0; pos < 4; pos++ {
			for _, v := range vals {
				ip := bg
				ip[pos] = byte(v)
				s := net.IP(ip[:]).String()
				if !seen[s] {
					seen[s] = true
					out = append(out, net.IPv4(ip[0], ip[1], ip[2], ip[3]).To4())
				}
			}
		}
	}
	return out
}

func macBasis(thorough bool) []net.HardwareAddr {
	var out []net.HardwareAddr
	vals := []int{0, 1, 0x7f, 0x80, 0xfe, 0xff}
	if thorough {
		vals = nil
		for v := 0; v < 256; v++ {
			vals = append(vals, v)
		}
	}
	seen := map[string]bool{}
	for _, bg := range [][6]byte{{0x02, 0x11, 0x22, 0x33, 0x44, 0x55}, {0xfe, 0xdc, 0xba, 0x98, 0x76, 0x54}} {
		for pos := 0; pos < 6; pos++ {
			for _, v := range vals {
				m := bg
				m[pos] = byte(v)
				if !seen[string(m[:])] {
					seen[string(m[:])] = true
					out = append(out, net.HardwareAddr(append([]byte{}, m[:]...)))
				}
			}
		}
	}
	return out
}

func ethIPv4(src, dst net.HardwareAddr, sip, dip net.IP, proto byte, l4 []byte) []byte {
	f := make([]byte, 0, 64+len(l4))
	f = append(f, dst...)
	f = append(f, src...)
	f = append(f, 0x08, 0x00)
	ip := make([]byte, 20)
	ip[0] = 0x45
	binary.BigEndian.PutUint16(ip[2:], uint16(20+len(l4)))
	ip[8] = 64
	ip[9] = proto
	copy(ip[12:], sip.To4())
	copy(ip[16:], dip.To4())
	var sum uint32
	for i := 0; i < 20; i += 2 {
		sum += uint32(binary.BigEndian.Uint16(ip[i:]))
	}
	sum = (sum & 0xffff) + (sum >> 16)
	sum = (sum & 0xffff) + (sum >> 16)
	binary.BigEndian.PutUint16(ip[10:], ^uint16(sum))
	f = append(f, ip...)
	return append(f, l4...)
}

func udp(sp, dp uint16, payload []byte) []byte {
	u := make([]byte, 8)
	binary.BigEndian.PutUint16(u[0:], sp)
	binary.BigEndian.PutUint16(u[2:], dp)
	binary.BigEndian.PutUint16(u[4:], uint16(8+len(payload)))
	return append(u, payload...)
}

// dhcpDiscover builds a DISCOVER with optional VLAN tags and option 82 circuit-id at option offset 3.
func dhcpDiscover(m net.HardwareAddr, tags [][2]uint16, cid []byte) []byte {
	b := make([]byte, 240)
	b[0], b[1], b[2] = 1, 1, 6
	copy(b[4:], []byte{0xde, 0xad, 0xbe, 0xef})
	copy(b[28:], m)
	copy(b[236:], []byte{0x63, 0x82, 0x53, 0x63})
	opts := []byte{53, 1, 1}
	if cid != nil {
		opts = append(opts, 82, byte(2+len(cid)+4), 1, byte(len(cid)))
		opts = append(opts, cid...)
		opts = append(opts, 2, 2, 'r', 'i')
	}
	opts = append(opts, 255)
	for len(opts) < 80 {
		opts = append(opts, 0)
	}
	l4 := udp(68, 67, append(b, opts...))
	f := ethIPv4(m, net.HardwareAddr{0xff, 0xff, 0xff, 0xff, 0xff, 0xff}, net.IPv4zero, net.IPv4bcast, 17, l4)
	if len(tags) > 0 {
		var t []byte
		for _, tg := range tags {
			t = append(t, byte(tg[0]>>8), byte(tg[0]), byte(tg[1]>>8), byte(tg[1]))
		}
		f = append(append(append([]byte{}, f[:12]...), t...), f[12:]...)
	}
	return f
}

func rev(ip net.IP) net.IP { ip = ip.To4(); return net.IPv4(ip[3], ip[2], ip[1], ip[0]).To4() }

const confirmed = " [confirmed: exact byte reversal]"

// reversedKey reports whether the kernel map holds an entry under the byte-reversed address and none under the wire bytes.
func reversedKey(m *cebpf.Map, ip net.IP) string {
	if m == nil || rev(ip).Equal(ip) {
		return ""
	}
	a, _ := m.LookupBytes([]byte(ip.To4()))
	b, _ := m.LookupBytes([]byte(rev(ip)))
	if a == nil && b != nil {
		return confirmed
	}
	return ""
}

// dhcpOpt returns option code's payload from a BOOTP reply frame (untagged, IHL 5).
func dhcpOpt(frame []byte, code byte) []byte {
	o := frame[14+20+8+240:]
	for i := 0; i+1 < len(o); {
		if o[i] == 255 {
			break
		}
		if o[i] == 0 {
			i++
			continue
		}
		l := int(o[i+1])
		if i+2+l > len(o) {
			break
		}
		if o[i] == code {
			return o[i+2 : i+2+l]
		}
		i += 2 + l
	}
	return nil
}

func (e *env) ipValue(part, site string, want net.IP, got []byte, what string) {
	if len(got) < 4 {
		viol(e.run, part, "ipv4-byte-order", site, fmt.Sprintf("%s: reply carries no such value", what))
		return
	}
	g := net.IP(got[:4])
	if g.Equal(want) {
		return
	}
	d := fmt.Sprintf("%s: control plane wrote %s, reply carries %s", what, want, g)
	if g.Equal(rev(want)) {
		d += confirmed
	}
	viol(e.run, part, "ipv4-byte-order", site, d, "ip="+want.String())
}

func (e *env) maps(p string) map[string]*cebpf.Map { return e.k[p].Coll.Maps }

func behaviouralPart(run *report.Run, dir string) {
	if err := nativebpf.KernelBuild(dir); err != nil {
		run.HarnessError(err.Error())
		return
	}
	e := &env{run: run, k: map[string]*nativebpf.Kernel{}}
	for _, p := range progSources {
		k, err := nativebpf.KernelLoad(dir, p, 65536)
		if err != nil {
			if strings.Contains(err.Error(), nativebpf.ErrNoBPF.Error()) {
				run.AddPart(report.Part{Name: "behavioural", Engine: "C:kernel", Note: "skipped: " + err.Error()})
				return
			}
			run.HarnessError(p + ": " + err.Error())
			return
		}
		defer k.Close()
		e.k[p] = k
	}
	th := run.Thorough()
	e.dhcp(th)
	e.qos(th)
	e.antispoof(th)
	e.nat(th)
	e.natALG()
	run.AddPart(report.Part{Name: "behavioural: real managers -> kernel maps -> in-kernel program", Engine: "C:kernel-test-run", Bound: "positional basis of every key derivation", Executions: e.n, Outcomes: e.hits, States: e.hits, Exhaustive: true})
	run.AddEvals(e.n, e.hits)
}

func (e *env) dhcp(th bool) {
	part := "behavioural:dhcp_fastpath"
	l, _ := ebpf.NewLoader("lo", zap.NewNop())
	l.VerifSetMaps(e.maps("dhcp_fastpath"))
	k := e.k["dhcp_fastpath"]
	srvIP := net.IPv4(10, 20, 30, 1).To4()
	if err := l.SetServerConfig(mac(0xaa), srvIP, 2); err != nil {
		viol(e.run, part, "write-rejected", "SetServerConfig", err.Error())
		return
	}
	gw := net.IPv4(10, 20, 30, 254).To4()
	if err := l.AddPool(1, &ebpf.IPPool{Network: ebpf.IPToUint32(net.IPv4(10, 20, 30, 0)), PrefixLen: 24, Gateway: ebpf.IPToUint32(gw), DNSPrimary: ebpf.IPToUint32(net.IPv4(1, 2, 3, 4)), LeaseTime: 3600}); err != nil {
		viol(e.run, part, "write-rejected", "AddPool", err.Error())
		return
	}
	far := uint64(1) << 40
	// MAC -> u64 x IPv4 value encoding
	ips := ipBasis(th)
	for i, m := range macBasis(th) {
		ip := ips[i%len(ips)]
		if err := l.AddSubscriber(ebpf.MACToUint64(m), &ebpf.PoolAssignment{PoolID: 1, AllocatedIP: ebpf.IPToUint32(ip), LeaseExpiry: far}); err != nil {
			viol(e.run, part, "write-rejected", "AddSubscriber", err.Error())
			return
		}
		v, out, err := k.Run("dhcp_fastpath_prog", dhcpDiscover(m, nil, nil))
		e.n++
		if err != nil {
			e.run.HarnessError(err.Error())
			return
		}
		if v != nativebpf.XDP_TX {
			viol(e.run, part, "mac-key", "AddSubscriber", fmt.Sprintf("subscriber added for MAC %s is not found by the program's own MAC->u64 derivation (verdict %d)", m, v), "mac="+m.String())
		} else {
			e.hits++
			e.ipValue(part, "dhcp-yiaddr", ip, out[14+20+8+16:14+20+8+20], "PoolAssignment.AllocatedIP -> yiaddr")
			e.ipValue(part, "dhcp-server-ip", srvIP, out[14+12:14+16], "SetServerConfig server IP -> IP source address")
			e.ipValue(part, "dhcp-server-id", srvIP, dhcpOpt(out, 54), "SetServerConfig server IP -> option 54")
			e.ipValue(part, "dhcp-router", gw, dhcpOpt(out, 3), "IPPool.Gateway -> option 3")
			e.ipValue(part, "dhcp-dns", net.IPv4(1, 2, 3, 4).To4(), dhcpOpt(out, 6), "IPPool.DNSPrimary -> option 6")
			if lt := dhcpOpt(out, 51); len(lt) != 4 || binary.BigEndian.Uint32(lt) != 3600 {
				viol(e.run, part, "value", "dhcp-lease-time", fmt.Sprintf("IPPool.LeaseTime 3600 -> option 51 = %x", lt))
			}
			if mk := dhcpOpt(out, 1); len(mk) != 4 || !net.IP(mk).Equal(net.IPv4(255, 255, 255, 0)) {
				viol(e.run, part, "value", "dhcp-subnet-mask", fmt.Sprintf("IPPool.PrefixLen 24 -> option 1 = %x", mk))
			}
		}
		l.RemoveSubscriber(ebpf.MACToUint64(m))
		if v2, _, _ := k.Run("dhcp_fastpath_prog", dhcpDiscover(m, nil, nil)); v2 == nativebpf.XDP_TX {
			viol(e.run, part, "mac-key", "RemoveSubscriber", fmt.Sprintf("entry for %s still answers after RemoveSubscriber", m))
		}
	}
	// VLAN pair
	base := mac(7)
	for _, s := range []uint16{1, 100, 4094} {
		for _, c := range []uint16{0, 1, 10, 4094} {
			if err := l.AddVLANSubscriber(s, c, &ebpf.PoolAssignment{PoolID: 1, AllocatedIP: ebpf.IPToUint32(net.IPv4(10, 1, 1, 10)), LeaseExpiry: far}); err != nil {
				viol(e.run, part, "write-rejected", "AddVLANSubscriber", err.Error())
				return
			}
			tags := [][2]uint16{{0x88a8, s}, {0x8100, c}}
			if c == 0 {
				tags = [][2]uint16{{0x8100, s}}
			}
			v, _, err := k.Run("dhcp_fastpath_prog", dhcpDiscover(base, tags, nil))
			e.n++
			if err != nil {
				e.run.HarnessError(err.Error())
				return
			}
			if v != nativebpf.XDP_TX {
				viol(e.run, part, "vlan-key", "AddVLANSubscriber", fmt.Sprintf("VLAN subscriber (s=%d,c=%d) not found by the program from a frame tagged %v", s, c, tags))
			} else {
				e.hits++
			}
			// a different pair must not hit
			if v, _, _ := k.Run("dhcp_fastpath_prog", dhcpDiscover(base, [][2]uint16{{0x88a8, s + 1}, {0x8100, c + 1}}, nil)); v == nativebpf.XDP_TX {
				viol(e.run, part, "vlan-key", "AddVLANSubscriber", fmt.Sprintf("frame tagged (%d,%d) is answered from the entry of (%d,%d)", s+1, c+1, s, c))
			}
			l.RemoveVLANSubscriber(s, c)
		}
	}
	// circuit-id key: every length 0..64, plus ids with blank / NUL bytes at either end and inside
	special := [][]byte{[]byte("ab "), []byte(" ab"), []byte("a\x00b"), []byte("ab\x00 "), []byte("  "), []byte("ab\t"), []byte("AB"), []byte("ab")}
	for n := 0; n <= 64+len(special); n++ {
		cid := make([]byte, n)
		for i := range cid {
			cid[i] = byte('A' + i%26)
		}
		if n > 64 {
			cid = special[n-65]
		}
		n := len(cid)
		if err := l.AddCircuitIDSubscriber(cid, &ebpf.PoolAssignment{PoolID: 1, AllocatedIP: ebpf.IPToUint32(net.IPv4(10, 1, 1, 10)), LeaseExpiry: far}); err != nil {
			viol(e.run, part, "write-rejected", "AddCircuitIDSubscriber", err.Error())
			return
		}
		v, _, err := k.Run("dhcp_fastpath_prog", dhcpDiscover(mac(0x999), nil, cid))
		e.n++
		if err != nil {
			e.run.HarnessError(err.Error())
			return
		}
		// lengths 1..32: both sides derive a key and it must be the same one. Longer circuit-ids: the program
		// derives no key (the frame goes to the slow path), so there is nothing to compare.
		if n >= 1 && n <= 32 && v != nativebpf.XDP_TX {
			viol(e.run, part, "circuit-id-key", "AddCircuitIDSubscriber", fmt.Sprintf("circuit-id of length %d cached by the control plane is not found by the program's key derivation", n), fmt.Sprintf("len=%d", n))
		} else if v == nativebpf.XDP_TX {
			e.hits++
		}
		if n >= 2 {
			// a circuit-id differing in its last byte must not be answered from this entry
			other := append([]byte{}, cid...)
			other[n-1] ^= 0x01
			if n <= 32 {
				if v2, _, _ := k.Run("dhcp_fastpath_prog", dhcpDiscover(mac(0x999), nil, other)); v2 == nativebpf.XDP_TX {
					viol(e.run, part, "circuit-id-key", "AddCircuitIDSubscriber", fmt.Sprintf("circuit-id differing in byte %d is answered from another circuit-id's entry", n-1), fmt.Sprintf("len=%d", n))
				}
			}
		}
		l.RemoveCircuitIDSubscriber(cid)
	}
	// stats read back: kernel-written struct decoded by Go
	if st, err := l.GetStats(); err != nil {
		viol(e.run, part, "read-rejected", "GetStats", err.Error())
	} else if st.TotalRequests == 0 || st.FastpathHits == 0 {
		viol(e.run, part, "stats", "GetStats", fmt.Sprintf("after %d fast-path replies GetStats reports %+v", e.hits, *st))
	}
}

func (e *env) qos(th bool) {
	part := "behavioural:qos_ratelimit"
	m, err := qos.NewManager(qos.ManagerConfig{Interface: "lo"}, nil, zap.NewNop())
	if err != nil {
		e.run.HarnessError(err.Error())
		return
	}
	m.VerifSetMaps(e.maps("qos_ratelimit"))
	k := e.k["qos_ratelimit"]
	for _, ip := range ipBasis(th) {
		if err := m.SetSubscriberQoS(&qos.SubscriberQoS{IP: ip, DownloadBPS: 8000, UploadBPS: 8000, BurstBytes: 70, Priority: 5}); err != nil {
			viol(e.run, part, "write-rejected", "SetSubscriberQoS", err.Error())
			return
		}
		// a 100-byte frame exceeds burst 70: found => SHOT, not found => OK
		f := ethIPv4(mac(1), mac(2), net.IPv4(8, 8, 8, 8), ip, 17, udp(1, 2, make([]byte, 58)))
		v, _, err := k.Run("qos_egress_prog", f)
		e.n++
		if err != nil {
			e.run.HarnessError(err.Error())
			return
		}
		if v != nativebpf.TC_ACT_SHOT {
			viol(e.run, part, "ipv4-byte-order", "qos-key", fmt.Sprintf("policy set for %s is not found by qos_egress_prog from a packet to %s (verdict %d): key bytes differ from the wire bytes%s", ip, ip, v, reversedKey(e.maps("qos_ratelimit")["qos_egress"], ip)), "ip="+ip.String())
		} else {
			e.hits++
		}
		m.RemoveSubscriberQoS(ip)
	}
	// read-back: the program's counters, written per CPU by the kernel, decoded by the control plane
	before, err := m.GetStats()
	if err != nil {
		viol(e.run, part, "read-rejected", "qos.GetStats", err.Error())
		return
	}
	pal := net.IPv4(10, 7, 7, 10).To4() // byte-palindromic: immune to the recorded byte-order finding
	m.SetSubscriberQoS(&qos.SubscriberQoS{IP: pal, DownloadBPS: 8000, UploadBPS: 8000, BurstBytes: 70, Priority: 5})
	f := ethIPv4(mac(1), mac(2), net.IPv4(8, 8, 8, 8), pal, 17, udp(1, 2, make([]byte, 58)))
	for i := 0; i < 3; i++ {
		k.Run("qos_egress_prog", f)
	}
	after, err := m.GetStats()
	if err != nil {
		viol(e.run, part, "read-rejected", "qos.GetStats", err.Error())
		return
	}
	if after.PacketsDropped-before.PacketsDropped != 3 || after.BytesDropped-before.BytesDropped != 3*uint64(len(f)) {
		viol(e.run, part, "stats", "qos.GetStats", fmt.Sprintf("3 packets of %d bytes were dropped by the program; GetStats delta: %+v -> %+v", len(f), *before, *after))
	}
	m.RemoveSubscriberQoS(pal)
}

func (e *env) antispoof(th bool) {
	part := "behavioural:antispoof"
	m, err := antispoof.NewManager(antispoof.ManagerConfig{Interface: "lo", DefaultMode: antispoof.ModeStrict}, zap.NewNop())
	if err != nil {
		e.run.HarnessError(err.Error())
		return
	}
	m.VerifSetMaps(e.maps("antispoof"))
	k := e.k["antispoof"]
	if err := m.SetMode(antispoof.ModeStrict); err != nil {
		viol(e.run, part, "write-rejected", "SetMode", err.Error())
		return
	}
	ips := ipBasis(th)
	for i, hw := range macBasis(th) {
		ip := ips[i%len(ips)]
		if err := m.AddBinding(hw, ip); err != nil {
			viol(e.run, part, "write-rejected", "AddBinding", err.Error())
			return
		}
		other := net.IPv4(ip[0], ip[1], ip[2], ip[3]^1).To4()
		good, _, err := k.Run("antispoof_ingress", ethIPv4(hw, mac(2), ip, net.IPv4(8, 8, 8, 8), 17, udp(1, 2, nil)))
		if err != nil {
			e.run.HarnessError(err.Error())
			return
		}
		bad, _, _ := k.Run("antispoof_ingress", ethIPv4(hw, mac(2), other, net.IPv4(8, 8, 8, 8), 17, udp(1, 2, nil)))
		e.n++
		switch {
		case good == nativebpf.TC_ACT_OK && bad == nativebpf.TC_ACT_SHOT:
			e.hits++
		case good == nativebpf.TC_ACT_SHOT:
			c := ""
			if r, _, _ := k.Run("antispoof_ingress", ethIPv4(hw, mac(2), rev(ip), net.IPv4(8, 8, 8, 8), 17, udp(1, 2, nil))); r == nativebpf.TC_ACT_OK && !rev(ip).Equal(ip) {
				c = confirmed
			}
			viol(e.run, part, "ipv4-byte-order", "antispoof-binding", fmt.Sprintf("binding %s -> %s: a packet sourced from exactly %s is dropped (bound value bytes differ from the wire bytes)%s", hw, ip, ip, c), "ip="+ip.String())
		default:
			viol(e.run, part, "mac-key", "AddBinding", fmt.Sprintf("binding for %s not applied: bound-source verdict %d, other-source verdict %d", hw, good, bad))
		}
		m.RemoveBinding(hw)
	}
	// LPM key for loose mode
	if err := m.SetMode(antispoof.ModeLoose); err != nil {
		viol(e.run, part, "write-rejected", "SetMode", err.Error())
	}
	_, n, _ := net.ParseCIDR("10.20.0.0/16")
	if err := m.AddAllowedRange(n); err != nil {
		viol(e.run, part, "write-rejected", "AddAllowedRange", err.Error())
	} else {
		in, _, _ := k.Run("antispoof_ingress", ethIPv4(mac(0x123), mac(2), net.IPv4(10, 20, 99, 7), net.IPv4(8, 8, 8, 8), 17, udp(1, 2, nil)))
		out, _, _ := k.Run("antispoof_ingress", ethIPv4(mac(0x123), mac(2), net.IPv4(10, 21, 99, 7), net.IPv4(8, 8, 8, 8), 17, udp(1, 2, nil)))
		e.n++
		if in != nativebpf.TC_ACT_OK || out != nativebpf.TC_ACT_SHOT {
			c := ""
			if r, _, _ := k.Run("antispoof_ingress", ethIPv4(mac(0x123), mac(2), net.IPv4(0, 0, 99, 7), net.IPv4(8, 8, 8, 8), 17, udp(1, 2, nil))); r == nativebpf.TC_ACT_OK {
				c = confirmed // the trie matches on the reversed bytes 00 00 (of 10.20.0.0 written as a number)
			}
			viol(e.run, part, "ipv4-byte-order", "antispoof-lpm-key", fmt.Sprintf("allowed range %s: source 10.20.99.7 verdict %d (want pass), source 10.21.99.7 verdict %d (want drop)%s", n, in, out, c))
		} else {
			e.hits++
		}
	}
	if st, err := m.GetStats(); err != nil {
		viol(e.run, part, "read-rejected", "antispoof.GetStats", err.Error())
	} else if st.PacketsAllowed+st.PacketsDropped == 0 {
		viol(e.run, part, "stats", "antispoof.GetStats", fmt.Sprintf("after %d program runs GetStats reports %+v", e.n, *st))
	}
}

func (e *env) nat(th bool) {
	part := "behavioural:nat44"
	k := e.k["nat44"]
	ips := ipBasis(th)
	sort.Slice(ips, func(i, j int) bool { return ips[i].String() < ips[j].String() })
	for i, ip := range ips {
		pub := net.IPv4(203, 0, 113, 9).To4()
		if i%2 == 1 {
			pub = net.IPv4(203, 9, 9, 203).To4() // palindromic public address: port-block logic reachable despite the byte-order finding
		}
		if !(ip[0] == 10 || (ip[0] == 100 && ip[1] >= 64 && ip[1] <= 127)) {
			continue // the program only translates private sources
		}
		m, err := nat.NewManager(nat.ManagerConfig{Interface: "lo", PortsPerSubscriber: 64, PortRangeStart: 1024, PortRangeEnd: 65535}, zap.NewNop())
		if err != nil {
			e.run.HarnessError(err.Error())
			return
		}
		m.VerifSetMaps(e.maps("nat44"))
		m.AddPublicIP(pub)
		a, err := m.AllocateNAT(ip)
		if err != nil {
			viol(e.run, part, "write-rejected", "AllocateNAT", err.Error())
			return
		}
		f := ethIPv4(mac(1), mac(2), ip, net.IPv4(8, 8, 8, 8), 17, udp(5000, 53, make([]byte, 8)))
		v, out, err := k.Run("nat44_egress", f)
		e.n++
		if err != nil {
			e.run.HarnessError(err.Error())
			return
		}
		src := net.IP(out[26:30])
		sport := binary.BigEndian.Uint16(out[34:36])
		switch {
		case v != nativebpf.TC_ACT_OK:
			viol(e.run, part, "nat", "AllocateNAT", fmt.Sprintf("egress packet of allocated subscriber %s: verdict %d", ip, v))
		case src.Equal(ip):
			viol(e.run, part, "ipv4-byte-order", "nat-subscriber-key", fmt.Sprintf("NAT allocation for %s is not found by nat44_egress from a packet sourced from %s (not translated)%s", ip, ip, reversedKey(e.maps("nat44")["subscriber_nat"], ip)), "ip="+ip.String())
		case !src.Equal(pub):
			e.ipValue(part, "nat-public-ip", pub, out[26:30], fmt.Sprintf("subscriber %s allocated on public IP -> translated source", ip))
		case sport < a.PortStart || sport > a.PortEnd:
			viol(e.run, part, "nat", "port-block", fmt.Sprintf("subscriber %s holds ports %d-%d, packet leaves with source port %d", ip, a.PortStart, a.PortEnd, sport))
		default:
			e.hits++
		}
		m.DeallocateNAT(ip)
	}
}

// natALG: keys of the alg_ports map. ConfigureALG(port, proto) writes (port<<16 | proto); the program derives its
// lookup key from the packet's destination port and protocol. Executed in-kernel: a flow to a configured ALG port
// must be handed to the ALG (not translated, alg_triggers counted), other flows must be translated.
func (e *env) natALG() {
	part := "behavioural:nat44-alg"
	k := e.k["nat44"]
	for _, n := range []string{"subscriber_nat", "alg_ports", "nat_sessions", "nat_reverse", "eim_table", "hairpin_ips"} {
		k.ClearMap(n)
	}
	m, err := nat.NewManager(nat.ManagerConfig{Interface: "lo", PortsPerSubscriber: 64, PortRangeStart: 1024, PortRangeEnd: 65535, EnableFTPALG: true, EnableSIPALG: true}, zap.NewNop())
	if err != nil {
		e.run.HarnessError(err.Error())
		return
	}
	m.VerifSetMaps(e.maps("nat44"))
	// what Start() writes into nat_config_map for this configuration
	var zero uint32
	if err := e.maps("nat44")["nat_config_map"].Put(&zero, &nat.NATConfig{Flags: nat.NATFlagALGFTP | nat.NATFlagALGSIP, PortRangeStart: 1024, PortRangeEnd: 65535, DefaultPortsPerSub: 64}); err != nil {
		viol(e.run, part, "write-rejected", "nat_config_map", err.Error())
		return
	}
	pub := net.IPv4(203, 9, 9, 203).To4() // palindromic: independent of the recorded byte-order finding
	sub := net.IPv4(10, 7, 7, 10).To4()
	m.AddPublicIP(pub)
	if _, err := m.AllocateNAT(sub); err != nil {
		viol(e.run, part, "write-rejected", "AllocateNAT", err.Error())
		return
	}
	type alg struct {
		port  uint16
		proto uint8
		typ   uint8
	}
	for _, a := range []alg{{21, 6, 1}, {5060, 17, 2}, {5060, 6, 2}, {2121, 6, 1}, {256, 17, 2}, {1, 6, 1}} {
		if err := m.ConfigureALG(a.port, a.proto, a.typ, true); err != nil {
			viol(e.run, part, "write-rejected", "ConfigureALG", err.Error())
			return
		}
	}
	tcp := func(sp, dp uint16) []byte {
		h := make([]byte, 20)
		binary.BigEndian.PutUint16(h[0:], sp)
		binary.BigEndian.PutUint16(h[2:], dp)
		h[12] = 0x50
		h[13] = 0x02
		return h
	}
	cases := []struct {
		proto byte
		port  uint16
		alg   bool
	}{{6, 21, true}, {17, 5060, true}, {6, 5060, true}, {6, 2121, true}, {17, 256, true}, {6, 1, true},
		{17, 53, false}, {6, 443, false}, {17, 21, false}, {6, 5061, false}, {17, 50195 /* 5060 byte-swapped */, false}, {6, 5376 /* 21 byte-swapped */, false}}
	for _, c := range cases {
		before, err := m.GetStats()
		if err != nil {
			viol(e.run, part, "read-rejected", "nat.GetStats", err.Error())
			return
		}
		var l4 []byte
		if c.proto == 6 {
			l4 = tcp(40000, c.port)
		} else {
			l4 = udp(40000, c.port, make([]byte, 8))
		}
		f := ethIPv4(mac(1), mac(2), sub, net.IPv4(8, 8, 8, 8), c.proto, l4)
		v, out, err := k.Run("nat44_egress", f)
		e.n++
		if err != nil {
			e.run.HarnessError(err.Error())
			return
		}
		after, _ := m.GetStats()
		translated := !net.IP(out[26:30]).Equal(sub)
		triggered := after.ALGTriggers > before.ALGTriggers
		switch {
		case v != nativebpf.TC_ACT_OK:
			viol(e.run, part, "alg-key", "ConfigureALG", fmt.Sprintf("proto %d port %d: verdict %d", c.proto, c.port, v))
		case c.alg && (translated || !triggered):
			viol(e.run, part, "alg-key", "ConfigureALG", fmt.Sprintf("ALG configured for proto %d port %d is not found by the program's own key derivation: flow translated=%v, alg_triggers advanced=%v", c.proto, c.port, translated, triggered), fmt.Sprintf("proto=%d port=%d", c.proto, c.port))
		case !c.alg && (!translated || triggered):
			viol(e.run, part, "alg-key", "ConfigureALG", fmt.Sprintf("no ALG is configured for proto %d port %d, yet the flow is handled as one: translated=%v, alg_triggers advanced=%v", c.proto, c.port, translated, triggered), fmt.Sprintf("proto=%d port=%d", c.proto, c.port))
		default:
			e.hits++
		}
	}
}

func execCmd(name string, args ...string) (string, error) {
	c := osexec(name, args...)
	b, err := c.CombinedOutput()
	return string(b), err
}
