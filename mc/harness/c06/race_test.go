package c06

// TestRacePass: the separate free-running pass (built with -race; bin/check runs it in BOTH tiers for this property,
// see RACE_QUICK). "Derived keys are computed identically on both sides for all inputs" has to hold for every
// caller: the DHCP server handles each packet on its own goroutine, so the key-derivation functions and the
// control-plane write APIs are called concurrently. The cooperative scheduler of Engine B only interleaves at
// lock / map operations; unsynchronised shared state inside a derivation function (a scratch buffer or hasher
// hoisted to package scope) is what the race detector sees. Several goroutines drive the real write APIs with
// DISJOINT keys into real kernel maps; afterwards every map must hold exactly what the same calls produce when made
// one after the other (reference: the same code run sequentially).

import (
	"fmt"
	"net"
	"os"
	"path/filepath"
	"sort"
	"strings"
	"sync"
	"testing"

	"github.com/codelaboratoryltd/bng/pkg/antispoof"
	"github.com/codelaboratoryltd/bng/pkg/ebpf"
	"github.com/codelaboratoryltd/bng/pkg/qos"
	"go.uber.org/zap"

	"verif/nativebpf"
)

type raceSys struct {
	k  map[string]*nativebpf.Kernel
	l  *ebpf.Loader
	q  *qos.Manager
	as *antispoof.Manager
}

var raceMaps = map[string][]string{
	"dhcp_fastpath": {"subscriber_pools", "vlan_subscriber_pools", "circuit_id_map", "circuit_id_subscribers"},
	"qos_ratelimit": {"qos_egress", "qos_ingress"},
	"antispoof":     {"subscriber_bindings"},
}

func (s *raceSys) reset() {
	for p, ms := range raceMaps {
		for _, m := range ms {
			if _, ok := s.k[p].Coll.Maps[m]; ok {
				s.k[p].ClearMap(m)
			}
		}
	}
	s.l, _ = ebpf.NewLoader("lo", zap.NewNop())
	s.l.VerifSetMaps(s.k["dhcp_fastpath"].Coll.Maps)
	s.q, _ = qos.NewManager(qos.ManagerConfig{Interface: "lo"}, nil, zap.NewNop())
	s.q.VerifSetMaps(s.k["qos_ratelimit"].Coll.Maps)
	s.as, _ = antispoof.NewManager(antispoof.ManagerConfig{Interface: "lo", DefaultMode: antispoof.ModeStrict}, zap.NewNop())
	s.as.VerifSetMaps(s.k["antispoof"].Coll.Maps)
	s.as.SetMode(antispoof.ModeStrict)
}

// work: everything worker w does; every key it touches is its own
func (s *raceSys) work(w, per int) []string {
	var errs []string
	note := func(what string, err error) {
		if err != nil {
			errs = append(errs, fmt.Sprintf("worker %d %s: %v", w, what, err))
		}
	}
	for j := 0; j < per; j++ {
		i := w*per + j
		hw := mac(0x100 + i)
		ip := net.IPv4(10, byte(w), byte(j), byte(w)).To4()
		cid := []byte(fmt.Sprintf("olt-%02d eth 0/%d/%d:%d.%d", w, j, i, 100+w, 7000+i))
		pa := &ebpf.PoolAssignment{PoolID: 1, AllocatedIP: ebpf.IPToUint32(ip), LeaseExpiry: 1 << 40}
		note("AddSubscriber", s.l.AddSubscriber(ebpf.MACToUint64(hw), pa))
		note("AddVLANSubscriber", s.l.AddVLANSubscriber(uint16(100+w), uint16(10+j), pa))
		note("AddCircuitIDMapping", s.l.AddCircuitIDMapping(cid, ebpf.MACToUint64(hw)))
		if s.l.HasCircuitIDSubscriberSupport() {
			note("AddCircuitIDSubscriber", s.l.AddCircuitIDSubscriber(cid, pa))
		}
		if got, err := s.l.GetCircuitIDMapping(cid); err != nil || got != ebpf.MACToUint64(hw) {
			errs = append(errs, fmt.Sprintf("worker %d: GetCircuitIDMapping(%q) = %x, %v right after AddCircuitIDMapping stored %x", w, cid, got, err, ebpf.MACToUint64(hw)))
		}
		note("SetSubscriberQoS", s.q.SetSubscriberQoS(&qos.SubscriberQoS{IP: ip, DownloadBPS: uint64(1000 * (i + 1)), UploadBPS: uint64(500 * (i + 1)), BurstBytes: uint32(70 + i), Priority: uint8(w)}))
		note("AddBinding", s.as.AddBinding(hw, ip))
		note("AddBindingV6", s.as.AddBindingV6(hw, net.ParseIP(fmt.Sprintf("2001:db8:%x::%x", w, j))))
	}
	return errs
}

func (s *raceSys) dump() map[string]string {
	out := map[string]string{}
	for p, ms := range raceMaps {
		for _, mn := range ms {
			m, ok := s.k[p].Coll.Maps[mn]
			if !ok {
				continue
			}
			var es []string
			it := m.Iterate()
			var k, v []byte
			for it.Next(&k, &v) {
				vv := append([]byte{}, v...)
				if p == "qos_ratelimit" && len(vv) >= 16 {
					for b := 0; b < 16; b++ { // tokens / last_update are run-time state of the bucket, not a key or a policy field
						vv[b] = 0
					}
				}
				es = append(es, fmt.Sprintf("%x=%x", k, vv))
			}
			sort.Strings(es)
			out[p+"/"+mn] = strings.Join(es, " ")
		}
	}
	return out
}

func TestRacePass(t *testing.T) {
	dir, err := os.MkdirTemp(filepath.Join(nativebpf.Root(), ".work"), "c06r-")
	if err != nil {
		os.MkdirAll(filepath.Join(nativebpf.Root(), ".work"), 0o755)
		dir, err = os.MkdirTemp(filepath.Join(nativebpf.Root(), ".work"), "c06r-")
	}
	if err != nil {
		t.Fatal(err)
	}
	defer os.RemoveAll(dir)
	if err := nativebpf.KernelBuild(dir); err != nil {
		t.Fatal(err)
	}
	s := &raceSys{k: map[string]*nativebpf.Kernel{}}
	for p := range raceMaps {
		k, err := nativebpf.KernelLoad(dir, p, 65536)
		if err != nil {
			fmt.Println("RACEPASS executions=0 (kernel maps unavailable: " + err.Error() + ")")
			return
		}
		defer k.Close()
		s.k[p] = k
	}
	const workers, per, rounds = 8, 6, 25
	// sequential reference
	s.reset()
	for w := 0; w < workers; w++ {
		if errs := s.work(w, per); len(errs) > 0 {
			fmt.Printf("RACEPASS-INVARIANT-FAIL sequential reference run failed: %v\n", errs[0])
		}
	}
	want := s.dump()
	n := 0
	for r := 0; r < rounds; r++ {
		s.reset()
		var wg sync.WaitGroup
		var mu sync.Mutex
		var all []string
		start := make(chan struct{})
		for w := 0; w < workers; w++ {
			wg.Add(1)
			go func(w int) {
				defer wg.Done()
				<-start
				errs := s.work(w, per)
				mu.Lock()
				all = append(all, errs...)
				mu.Unlock()
			}(w)
		}
		close(start)
		wg.Wait()
		n++
		for _, e := range all {
			fmt.Printf("RACEPASS-INVARIANT-FAIL %s\n", e)
		}
		got := s.dump()
		for mn, w := range want {
			if got[mn] != w {
				fmt.Printf("RACEPASS-INVARIANT-FAIL round %d: after %d concurrent workers with disjoint keys, kernel map %s differs from what the same calls produce sequentially (%d vs %d bytes of entries)\n", r, workers, mn, len(got[mn]), len(w))
			}
		}
		if len(all) > 0 {
			break
		}
	}
	fmt.Printf("RACEPASS executions=%d\n", n)
}
