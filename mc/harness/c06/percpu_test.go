package c06

// Per-CPU values under a restricted CPU set. A BPF_MAP_TYPE_PERCPU_ARRAY value is one record per POSSIBLE CPU; the
// control plane "reads back" all of them and aggregates. Whether it really consumes every slot cannot be seen from a
// process that may run on every CPU (runtime.NumCPU() == possible CPUs there), so the comparison runs in a CHILD of
// this test binary started under `taskset -c 0` (affinity mask of one CPU, as in a container with a cpuset): every
// slot of every per-CPU statistics map is filled with a distinct value through the map API and the manager's
// GetStats must return the sum over all slots for every counter.

import (
	"flag"
	"fmt"
	"os"
	"os/exec"
	"reflect"
	"strings"

	cebpf "github.com/cilium/ebpf"
	"github.com/codelaboratoryltd/bng/pkg/antispoof"
	"github.com/codelaboratoryltd/bng/pkg/nat"
	"github.com/codelaboratoryltd/bng/pkg/qos"
	"go.uber.org/zap"

	"verif/nativebpf"
	"verif/report"
)

var (
	flagChild    = flag.String("c06child", "", "internal: child mode")
	flagChildDir = flag.String("c06dir", "", "internal: directory with the compiled objects")
)

// fillPerCPU writes, for every possible CPU i, a value whose every 8-byte word is (i+1)*w.
func fillPerCPU(m *cebpf.Map, w uint64) (int, error) {
	var cur [][]byte
	if err := m.Lookup(uint32(0), &cur); err != nil { // one value per possible CPU
		return 0, err
	}
	n := len(cur)
	vs := int(m.ValueSize())
	vals := make([][]byte, n)
	for i := range vals {
		b := make([]byte, vs)
		for o := 0; o+8 <= vs; o += 8 {
			x := uint64(i+1) * w
			for k := 0; k < 8; k++ {
				b[o+k] = byte(x >> (8 * k))
			}
		}
		vals[i] = b
	}
	return n, m.Put(uint32(0), vals)
}

// checkSums: every uint64 field of the struct st points to must equal want
func checkSums(what string, st any, want uint64) []string {
	var out []string
	v := reflect.ValueOf(st).Elem()
	for i := 0; i < v.NumField(); i++ {
		if v.Field(i).Kind() == reflect.Uint64 && v.Field(i).Uint() != want {
			out = append(out, fmt.Sprintf("PERCPU-MISMATCH %s.%s = %d, the per-CPU slots add up to %d", what, v.Type().Field(i).Name, v.Field(i).Uint(), want))
		}
	}
	return out
}

func childPerCPU(dir string) {
	var lines []string
	do := func(prog, mapName, what string, get func(maps map[string]*cebpf.Map) (any, error)) {
		k, err := nativebpf.KernelLoad(dir, prog, 4096)
		if err != nil {
			fmt.Println("PERCPU-SKIP " + what + ": " + err.Error())
			return
		}
		defer k.Close()
		m := k.Coll.Maps[mapName]
		if m == nil || m.Type() != cebpf.PerCPUArray {
			fmt.Printf("PERCPU-SKIP %s: map %s is not a per-CPU array\n", what, mapName)
			return
		}
		n, err := fillPerCPU(m, 3)
		if err != nil {
			fmt.Println("PERCPU-SKIP " + what + ": " + err.Error())
			return
		}
		st, err := get(k.Coll.Maps)
		if err != nil {
			lines = append(lines, "PERCPU-MISMATCH "+what+": GetStats failed: "+err.Error())
			return
		}
		want := uint64(3) * uint64(n) * uint64(n+1) / 2
		lines = append(lines, checkSums(what, st, want)...)
		fmt.Printf("PERCPU-OK %s possible_cpus=%d\n", what, n)
	}
	do("qos_ratelimit", "qos_stats_map", "qos.GetStats", func(maps map[string]*cebpf.Map) (any, error) {
		m, err := qos.NewManager(qos.ManagerConfig{Interface: "lo"}, nil, zap.NewNop())
		if err != nil {
			return nil, err
		}
		m.VerifSetMaps(maps)
		return m.GetStats()
	})
	do("antispoof", "antispoof_stats", "antispoof.GetStats", func(maps map[string]*cebpf.Map) (any, error) {
		m, err := antispoof.NewManager(antispoof.ManagerConfig{Interface: "lo"}, zap.NewNop())
		if err != nil {
			return nil, err
		}
		m.VerifSetMaps(maps)
		return m.GetStats()
	})
	do("nat44", "nat_stats_map", "nat.GetStats", func(maps map[string]*cebpf.Map) (any, error) {
		m, err := nat.NewManager(nat.ManagerConfig{Interface: "lo", PortsPerSubscriber: 4, PortRangeStart: 1024, PortRangeEnd: 2047}, zap.NewNop())
		if err != nil {
			return nil, err
		}
		m.VerifSetMaps(maps)
		return m.GetStats()
	})
	for _, l := range lines {
		fmt.Println(l)
	}
	fmt.Println("PERCPU-DONE")
}

// perCPUPart runs the child pinned to one CPU and turns its lines into the verdict.
func perCPUPart(run *report.Run, dir string) {
	if _, err := exec.LookPath("taskset"); err != nil {
		run.AddPart(report.Part{Name: "per-CPU read-back under a one-CPU affinity mask", Engine: "C:kernel maps (child process)", Note: "skipped: taskset not available", Exhaustive: false})
		return
	}
	cmd := exec.Command("taskset", "-c", "0", os.Args[0], "-test.run", "^TestCheck$", "-c06child", "percpu", "-c06dir", dir)
	out, err := cmd.CombinedOutput()
	text := string(out)
	if err != nil || !strings.Contains(text, "PERCPU-DONE") {
		run.HarnessError("per-CPU child failed: " + fmt.Sprint(err) + "\n" + text)
		return
	}
	ok := 0
	for _, l := range strings.Split(text, "\n") {
		switch {
		case strings.HasPrefix(l, "PERCPU-MISMATCH "):
			viol(run, "per-CPU read-back", "percpu-readback", strings.Fields(l)[1], strings.TrimPrefix(l, "PERCPU-MISMATCH ")+" (process restricted to one CPU: runtime.NumCPU()=1)")
		case strings.HasPrefix(l, "PERCPU-OK "):
			ok++
		}
	}
	run.AddPart(report.Part{Name: "per-CPU read-back under a one-CPU affinity mask", Engine: "C:kernel maps (child process)", Bound: "every slot of every per-CPU statistics map filled; GetStats of qos / antispoof / nat compared with the sum",
		Executions: int64(ok), States: int64(ok), Exhaustive: true})
	run.AddEvals(int64(ok), int64(ok))
}
