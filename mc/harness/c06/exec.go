package c06

import "os/exec"

func osexec(name string, args ...string) *exec.Cmd { return exec.Command(name, args...) }
