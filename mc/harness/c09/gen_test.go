package c09

import "encoding/binary"

// The finite generator. For one target (entry point x pre-state) with seeds S:
//   G1  every seed unchanged
//   G2  every truncation seed[:k], 0 <= k < len
//   G3  every position p x every value of B8 u {orig-1, orig+1} (value != orig)
//   G4  every annotated 8-bit length/count field x all 256 values
//   G5  every annotated 16-bit length field x B16 u {orig-1, orig+1, len(seed)-off..., }
//   G6  all byte strings of length <= 2, raw and embedded by each wrapper; thorough: length 3 as well for pure
//       decoders. Quick tier: the full 65536 2-byte strings only for pure decoders; stateful entry points and
//       framed payloads get all strings of length <= 1 plus boundary x boundary 2-byte strings.
//   G7  seed padded to 2048 bytes with 0x00 / 0xff / 'A' (raw and with outer lengths fixed),
//       and seed with its repeatable option multiplied up to 2048 bytes (raw and fixed)
//   thorough only:
//   G8  all pairs of annotated length fields x (B8 or B16) x (B8 or B16)
//   G9  every annotated 16-bit length field x all 65536 values
// Every generated input is at most 2 KiB (+ the bytes a wrapper adds).

var b8 = []byte{0, 1, 2, 3, 4, 5, 6, 7, 8, 0x7f, 0x80, 0xfe, 0xff}

const maxLen = 2048

func b16For(s *seed, off int) []uint16 {
	orig := binary.BigEndian.Uint16(s.data[off:])
	rest := len(s.data) - off - 2
	vs := []uint16{0, 1, 2, 3, 4, 5, 6, 7, 8, 0x7f, 0x80, 0xfe, 0xff, 0x100, 0x101, 0x7ff, 0x800, 0x801, 0x7fff, 0x8000, 0xfffa, 0xfffb, 0xfffc, 0xfffd, 0xfffe, 0xffff,
		orig - 1, orig + 1, orig - 2, orig + 2, uint16(rest), uint16(rest - 1), uint16(rest + 1), uint16(len(s.data)), uint16(len(s.data) - 1), uint16(len(s.data) + 1)}
	seen := map[uint16]bool{orig: true}
	var out []uint16
	for _, v := range vs {
		if !seen[v] {
			seen[v] = true
			out = append(out, v)
		}
	}
	return out
}

func b8For(orig byte) []byte {
	seen := map[byte]bool{orig: true}
	var out []byte
	for _, v := range append(append([]byte{}, b8...), orig-1, orig+1) {
		if !seen[v] {
			seen[v] = true
			out = append(out, v)
		}
	}
	return out
}

type field struct {
	off  int
	wide bool
}

func (s *seed) fields() []field {
	var fs []field
	for _, o := range s.len8 {
		fs = append(fs, field{o, false})
	}
	for _, o := range s.len16 {
		fs = append(fs, field{o, true})
	}
	return fs
}

// values a field takes in the pair generator
func pairVals(s *seed, f field) []uint16 {
	if f.wide {
		return b16For(s, f.off)
	}
	var out []uint16
	for _, v := range b8For(s.data[f.off]) {
		out = append(out, uint16(v))
	}
	return out
}

func put(b []byte, f field, v uint16) {
	if f.wide {
		binary.BigEndian.PutUint16(b[f.off:], v)
	} else {
		b[f.off] = byte(v)
	}
}

func padTo(b []byte, n int, fill byte) []byte {
	out := make([]byte, n)
	copy(out, b)
	for i := len(b); i < n; i++ {
		out[i] = fill
	}
	return out
}

func buildJobs(t *target, thorough bool) []job {
	var jobs []job
	lite := !thorough && t.quickLite
	add := func(class string, run func(emit func([]byte))) { jobs = append(jobs, job{class, run}) }

	for si := range t.seeds {
		if !thorough && t.quickSeeds > 0 && si >= t.quickSeeds {
			break
		}
		s := &t.seeds[si]
		L := len(s.data)
		// G1 + G2
		add("seed+truncations", func(emit func([]byte)) {
			emit(s.data)
			for k := 0; k < L; k++ {
				emit(s.data[:k])
			}
		})
		// G3 in chunks of positions (small chunks for long seeds: better balance between workers)
		chunk := 64
		if L > 128 {
			chunk = 8
		}
		for p0 := 0; p0 < L && !lite; p0 += chunk {
			p0 := p0
			if !thorough && p0 >= s.cold[0] && p0+chunk <= s.cold[1] {
				continue
			}
			add("position-boundary", func(emit func([]byte)) {
				buf := make([]byte, L)
				for p := p0; p < p0+chunk && p < L; p++ {
					if !thorough && p >= s.cold[0] && p < s.cold[1] {
						continue
					}
					copy(buf, s.data)
					for _, v := range b8For(s.data[p]) {
						buf[p] = v
						emit(buf)
					}
				}
			})
		}
		// G4
		for _, off := range s.len8 {
			off := off
			add("len8-sweep", func(emit func([]byte)) {
				buf := make([]byte, L)
				copy(buf, s.data)
				if t.len8Boundary {
					for _, v := range b8For(s.data[off]) {
						buf[off] = v
						emit(buf)
					}
					return
				}
				for v := 0; v < 256; v++ {
					if byte(v) == s.data[off] {
						continue
					}
					buf[off] = byte(v)
					emit(buf)
				}
			})
		}
		// G5
		if len(s.len16) > 0 {
			add("len16-boundary", func(emit func([]byte)) {
				buf := make([]byte, L)
				for _, off := range s.len16 {
					copy(buf, s.data)
					for _, v := range b16For(s, off) {
						binary.BigEndian.PutUint16(buf[off:], v)
						emit(buf)
					}
				}
			})
		}
		// G7
		add("pad-2KiB", func(emit func([]byte)) {
			if L < maxLen {
				for _, fill := range []byte{0x00, 0xff, 'A'} {
					p := padTo(s.data, maxLen, fill)
					emit(p)
					if s.fix != nil {
						emit(s.fix(p))
					}
				}
				// the seed repeated back to back
				var r []byte
				for len(r)+L <= maxLen && L > 0 {
					r = append(r, s.data...)
				}
				if len(r) > L {
					emit(r)
					if s.fix != nil {
						emit(s.fix(append([]byte(nil), r...)))
					}
				}
			}
			if s.rep[1] > s.rep[0] {
				unit := s.data[s.rep[0]:s.rep[1]]
				n := (maxLen - L) / len(unit)
				if n > 0 {
					r := append([]byte(nil), s.data[:s.rep[1]]...)
					for i := 0; i < n; i++ {
						r = append(r, unit...)
					}
					r = append(r, s.data[s.rep[1]:]...)
					emit(r)
					if s.fix != nil {
						emit(s.fix(append([]byte(nil), r...)))
					}
					// and a few intermediate multiplicities
					for _, m := range []int{1, 2, 3, 15, 16, 17, 63, 64, 127, 128, 255, 256} {
						if m >= n {
							break
						}
						r := append([]byte(nil), s.data[:s.rep[1]]...)
						for i := 0; i < m; i++ {
							r = append(r, unit...)
						}
						r = append(r, s.data[s.rep[1]:]...)
						if s.fix != nil {
							emit(s.fix(r))
						} else {
							emit(r)
						}
					}
				}
			}
		})
		if thorough {
			// G8
			fs := s.fields()
			for i := 0; i < len(fs); i++ {
				for j := i + 1; j < len(fs); j++ {
					fi, fj := fs[i], fs[j]
					add("length-pairs", func(emit func([]byte)) {
						buf := make([]byte, L)
						copy(buf, s.data)
						// single-field changes are G3..G5; here both fields differ from the seed
						for _, a := range pairVals(s, fi) {
							for _, b := range pairVals(s, fj) {
								put(buf, fi, a)
								put(buf, fj, b)
								emit(buf)
							}
						}
					})
				}
			}
			// G9
			if !t.light {
				for _, off := range s.len16 {
					off := off
					for c := 0; c < 65536; c += 4096 {
						c := c
						add("len16-sweep", func(emit func([]byte)) {
							buf := make([]byte, L)
							copy(buf, s.data)
							for v := c; v < c+4096; v++ {
								binary.BigEndian.PutUint16(buf[off:], uint16(v))
								emit(buf)
							}
						})
					}
				}
			}
		}
	}
	// G6
	if lite {
		return jobs
	}
	if t.strN >= 0 {
		add("strings<=1", func(emit func([]byte)) {
			emit([]byte{})
			for a := 0; a < 256; a++ {
				emit([]byte{byte(a)})
			}
		})
	}
	if t.strN >= 2 && !thorough && t.strN < 3 {
		// quick, stateful entry points: every 2-byte string is rejected by the first (stateless) length
		// check of every handler, so only boundary x boundary is run per pre-state; thorough runs all 65536
		add("strings=2(boundary)", func(emit func([]byte)) {
			buf := make([]byte, 2)
			for _, a := range b8 {
				for _, b := range b8 {
					buf[0], buf[1] = a, b
					emit(buf)
				}
			}
		})
	} else if t.strN >= 2 {
		for a0 := 0; a0 < 256; a0 += 16 {
			a0 := a0
			add("strings=2", func(emit func([]byte)) {
				buf := make([]byte, 2)
				for a := a0; a < a0+16; a++ {
					buf[0] = byte(a)
					for b := 0; b < 256; b++ {
						buf[1] = byte(b)
						emit(buf)
					}
				}
			})
		}
	}
	if t.strN >= 3 && thorough {
		for a := 0; a < 256; a++ {
			a := a
			add("strings=3", func(emit func([]byte)) {
				buf := make([]byte, 3)
				buf[0] = byte(a)
				for b := 0; b < 256; b++ {
					buf[1] = byte(b)
					for c := 0; c < 256; c++ {
						buf[2] = byte(c)
						emit(buf)
					}
				}
			})
		}
	}
	for wi := range t.wraps {
		w := t.wraps[wi]
		add("framed-strings<=1", func(emit func([]byte)) {
			emit(w([]byte{}))
			for a := 0; a < 256; a++ {
				emit(w([]byte{byte(a)}))
			}
		})
		if !thorough {
			// quick: 2-byte payloads restricted to boundary x boundary
			add("framed-strings=2(boundary)", func(emit func([]byte)) {
				buf := make([]byte, 2)
				for _, a := range b8 {
					for _, b := range b8 {
						buf[0], buf[1] = a, b
						emit(w(buf))
					}
				}
			})
			continue
		}
		for a0 := 0; a0 < 256; a0 += 16 {
			a0 := a0
			add("framed-strings=2", func(emit func([]byte)) {
				buf := make([]byte, 2)
				for a := a0; a < a0+16; a++ {
					buf[0] = byte(a)
					for b := 0; b < 256; b++ {
						buf[1] = byte(b)
						emit(w(buf))
					}
				}
			})
		}
	}
	return jobs
}

func origVal(s *seed, f field) uint16 {
	if f.wide {
		return binary.BigEndian.Uint16(s.data[f.off:])
	}
	return uint16(s.data[f.off])
}
