package c09

import (
	"encoding/hex"
	"fmt"
	"os"
	"strings"
	"testing"
	"time"

	"verif/report"
)

// classify assigns a root-cause class to a violation. Every defect found so far has a small
// repair (see /verif/fixes/C09-F*.diff), so no class is registered as a known finding.
func classify(v *report.Violation) {}

func TestCheck(t *testing.T) {
	run := report.New("C09", "exploration")
	run.Rule = "every input of the finite generator G1..G9 (gen_test.go: seeds, all truncations, every position x boundary bytes, 8-bit length fields x 256, 16-bit length fields x boundary values [x 65536 and length-field pairs in thorough], all byte strings up to length 2 (3 for pure decoders) raw and framed, 2 KiB padded / option-multiplied variants) is executed on the real decoder/handler in every listed pre-state; oracle: the call returns (value or error) - a recovered panic, a dead worker process, a synctest deadlock (timer-driven automata run with their real restart timers in virtual time: state x {no timeout, one restart timeout fired, retransmissions exhausted} x packet, then all remaining timers run out; a goroutine left durably blocked is reported by the runtime) or - backstop only - a call exceeding 10 s twice is a violation. Stream decoders (HA SSE reader, full-sync reader) get every cut point of a valid stream as an in-memory HTTP body ending in EOF or a reset. Input slices have cap==len so any read outside the input panics."
	run.Assumptions = []string{
		"panics are grouped by the first repository frame below the panic (one report per root cause, shortest input)",
		"PPPoE server driven through handleDiscovery/handleSession with an in-memory socket (Ethernet header already stripped as receiveLoop does)",
		"CoA listener: the real receiveLoop over loopback UDP, one fence datagram after every input",
		"DHCPv4 with a RADIUS client uses an in-process RADIUS responder on loopback; those parts run in child processes because the handler starts accounting goroutines",
		"restart timers of the PPP automata set to 1h so that only the packet under test drives the automaton",
		"the 'linear time' clause is checked only as: no call on a <=2 KiB input takes 10 s",
		"secondary configurations of an entry point (quickLite parts) get seeds, truncations, length-field values and 2 KiB variants in the quick tier and the full generator in thorough",
		"pppoe, ha and dhcp are compiled with the cooperative sync shims (REWRITE): before the parallel workers start, every stateful entry point of these packages is also executed as one Engine B thread per input (quick: seeds, truncations, length-field boundary values, 2 KiB variants; thorough: the quick generator in full) - 'no enabled thread' = self-deadlock, reported with the parked frame; site line numbers of these packages refer to the rewritten copies (imports shift them by a few lines)",
		"packet handler || periodic actor (Engine B, every interleaving up to preemption bound 1 quick / 2 thorough, each seed packet, inside a synctest bubble so that raw channel blocks are found by the runtime): restart timer expiry (clock + fired-timer threads) in the 5 timer states of LCP/IPCP/IPV6CP; SessionKeepAlive.check against the LCP automaton in all 10 states with a keep-alive attached (echo pending or not); KeepAliveManager sweep against the echo-reply path; PPPoE session cleanup sweep against handleSession/handleDiscovery with a session in each SessionState; DHCPv4 lease cleanup tick against handleDHCP with an expired lease. Not covered: HA tickers (heartbeat/broadcast run on the active side, not against a packet decoder)",
		"the wall clock never decides a blocked call: after 10 s + 10 s alone a call that is still RUNNING is a non-terminating computation (violation); a call that is BLOCKED is decided by Engine B when the package is instrumented and is otherwise a harness error (exit 2)",
		"every handler is enumerated under each configuration switch it branches on: DHCPv6 legacy/integrated/absent address and prefix back-ends (all 8 combinations used) x lease, DNS on/off; DHCPv4 loader nil/unloaded, RADIUS off/accept/reject/accounting-only, QoS+NAT managers, empty pool manager; PPPoE server with/without pool+DNS and with a RADIUS client; Authenticator with RADIUS accept/reject incl. the rate-limited state; IPCP static/pool/no peer address; LCP PAP/CHAP+PFC+ACFC; CoA default and application handlers. Not covered: DHCPv4 with Nexus client / HTTP allocator / peer pool (need an HTTP peer)",
	}
	theT = t
	ts := allTargets()
	if *flagChild != "" {
		os.Exit(childMain(run, ts))
	}
	e := newEngine(run)
	if *report.FlagReplay != "" {
		os.Exit(replay(run, e, ts))
	}
	for _, b := range checkStates() {
		run.HarnessError(b)
	}
	budget := 70 * time.Second
	if run.Thorough() {
		budget = 25 * time.Minute
	}
	e.deadline = time.Now().Add(budget)
	n := 0
	var sel, iso []*target
	for _, tg := range ts {
		if tg.quickSkip && !run.Thorough() {
			continue
		}
		if run.WantPart(tg.name) {
			n++
			if tg.isolate {
				iso = append(iso, tg)
			} else {
				sel = append(sel, tg)
			}
		}
	}
	// phase 1: deterministic self-deadlock pass (Engine B, serial, nothing else of the code under test is running)
	for _, tg := range sel {
		if tg.deadlockPass {
			e.deadlockPass(tg)
		}
	}
	e.racePass(raceFamilies())
	// isolated parts (child processes, mostly waiting on loopback round trips) run alongside the in-process parts
	isoDone := make(chan struct{})
	go func() {
		defer close(isoDone)
		for _, tg := range iso {
			e.runTarget(tg)
		}
	}()
	for _, tg := range sel {
		e.runTarget(tg)
	}
	<-isoDone
	e.reportViolations()
	run.SetExtra("entry_point_x_prestate_parts", n)
	for i, tg := range ts {
		if i%9 == 0 && len(tg.seeds) > 0 {
			run.Sample(map[string]string{"target": tg.name, "seed": tg.seeds[0].name, "hex": hex.EncodeToString(tg.seeds[0].data[:min(len(tg.seeds[0].data), 48)])})
		}
	}
	os.Exit(run.Finish())
}

// replay re-executes one recorded input on its target (in a child process for isolated targets).
func replay(run *report.Run, e *engine, ts []*target) int {
	v, err := report.LoadReplay(*report.FlagReplay)
	if err != nil {
		fmt.Println("HARNESS-ERROR", err)
		return 2
	}
	name, _ := v.Extra["target"].(string)
	hx, _ := v.Extra["input_hex"].(string)
	in, err := hex.DecodeString(hx)
	if err != nil || name == "" {
		fmt.Println("HARNESS-ERROR replay file has no target/input_hex")
		return 2
	}
	if strings.Contains(name, "|| restart timer expiry") { // Engine B two-thread part: re-explore it
		*report.FlagPart = name
		e.racePass(raceFamilies())
		e.reportViolations()
		if run.NumViolations() == 0 {
			fmt.Println("replay: no interleaving of", name, "fails")
		}
		return run.Finish()
	}
	var tg *target
	for _, x := range ts {
		if x.name == name {
			tg = x
		}
	}
	if tg == nil {
		fmt.Println("HARNESS-ERROR unknown target", name)
		return 2
	}
	if tg.precheck != nil {
		if p := tg.precheck(); p != nil && !p.harness {
			k := p.kind
			if k == "" {
				k = "panic"
			}
			e.record(k, tg, nil, p.site, p.msg, p.stack)
			e.reportViolations()
			return run.Finish()
		}
	}
	if tg.deadlockPass {
		var ctx any
		var cleanup func()
		if tg.newCtx != nil {
			ctx, cleanup = tg.newCtx()
		}
		cp := make([]byte, len(in))
		copy(cp, in)
		_, p, dead, _ := engineBCall(tg, ctx, cp)
		if cleanup != nil {
			cleanup()
		}
		if dead != nil {
			e.record("hang", tg, in, dead.site, dead.msg, dead.stack)
		} else if p != nil && !p.harness {
			k := p.kind
			if k == "" {
				k = "panic"
			}
			e.record(k, tg, in, p.site, p.msg, p.stack)
		}
		if dead != nil || p != nil {
			e.reportViolations()
			return run.Finish()
		}
	}
	if tg.isolate {
		res := e.runChild(tg, "0/1", "", hx)
		if res.harnessErr != "" {
			fmt.Println("HARNESS-ERROR", res.harnessErr)
			return 2
		}
		if !res.done {
			site, msg := siteFromStderr(res.stderr)
			e.record("worker-death", tg, in, site, msg, tail(res.stderr, 4000))
		}
	} else {
		var ctx any
		var cleanup func()
		if tg.newCtx != nil {
			ctx, cleanup = tg.newCtx()
		}
		done := make(chan *panicInfo, 1)
		go func() {
			cp := make([]byte, len(in))
			copy(cp, in)
			_, p := safeCall(tg, ctx, cp)
			done <- p
		}()
		select {
		case p := <-done:
			if p != nil && !p.harness {
				k := p.kind
				if k == "" {
					k = "panic"
				}
				e.record(k, tg, in, p.site, p.msg, p.stack)
			}
		case <-time.After(2 * hangCap):
			if st := e.confirmHang(tg, in); st == "running" {
				e.record("hang", tg, in, "hang in "+tg.entry, "call still computing after 30 s: non-terminating loop", "")
			} else if st == "blocked" {
				fmt.Println("HARNESS-ERROR replay: call blocked, not decided by the wall clock")
			}
		}
		if cleanup != nil {
			cleanup()
		}
	}
	e.reportViolations()
	if run.NumViolations() == 0 {
		fmt.Printf("replay: %s returned normally on %d-byte input (%s)\n", name, len(in), strings.TrimSpace(v.Site))
	}
	return run.Finish()
}
