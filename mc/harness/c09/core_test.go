// C09 — No packet from the network can crash or hang the gateway.
// Engine D: bounded-exhaustive input enumeration. This file is the engine:
// targets (entry point x pre-state), deterministic jobs, worker pool with
// per-call recover, hang monitor, child-process isolation for entry points that
// spawn goroutines, grouping of panics by root cause, replay.
package c09

import (
	"bufio"
	"encoding/binary"
	"encoding/hex"
	"encoding/json"
	"flag"
	"fmt"
	"io"
	"os"
	"os/exec"
	"regexp"
	"runtime"
	"sort"
	"strings"
	"sync"
	"sync/atomic"
	"time"

	"verif/report"
)

var (
	flagChild = flag.String("c09child", "", "internal: run one isolated target in this (child) process")
	flagShard = flag.String("c09shard", "0/1", "internal: shard i/n of the child's job list")
	flagSkip  = flag.String("c09skip", "", "internal: job:index already executed (resume after it)")
	flagOne   = flag.String("c09one", "", "internal: hex input to execute once in the child (replay)")
)

const hangCap = 10 * time.Second // only ever classifies a HANG

// seed is one valid sample message of a protocol plus the positions of its
// length/count fields (relative to the start of data).
type seed struct {
	name  string
	data  []byte
	len8  []int               // offsets of 8-bit length/count fields
	len16 []int               // offsets of big-endian 16-bit length fields
	rep   [2]int              // [start,end) of one repeatable option/TLV (0,0 = none)
	cold  [2]int              // [start,end) of bytes no handler looks at (BOOTP sname/file): position sweep only in thorough
	fix   func([]byte) []byte // recompute outer length fields after a structural change (may be nil)
}

// target = one entry point in one pre-state.
type target struct {
	name         string // unique: "<entry>[<pre-state>]"
	entry        string // entry point group used when reporting
	seeds        []seed
	strN         int                           // all byte strings up to this length (2, or 3 for pure decoders)
	wraps        []func(p []byte) []byte       // short strings are additionally embedded as payload by each wrapper
	prep         func(in []byte) []byte        // optional final transform of every generated input (e.g. re-sign)
	isolate      bool                          // run in child processes (the code under test starts goroutines that touch the input)
	newCtx       func() (any, func())          // optional per-worker context + cleanup
	call         func(ctx any, in []byte) bool // execute on the REAL code; returns "non-trivial" (got past the first checks)
	light        bool                          // skip 16-bit sweeps (expensive per call)
	precheck     func() *panicInfo             // optional: validates the pre-state itself once; non-nil = the pre-state already wedges (recorded, part skipped)
	len8Boundary bool                          // 8-bit length fields take the boundary values only (Engine B pass of the quick tier)
	quickLite    bool                          // quick tier: seeds, truncations, length-field values and 2 KiB variants only (a further configuration of an entry point whose primary configuration gets the full generator)
	deadlockPass bool                          // package compiled with the cooperative sync shims: also run every call as one Engine B thread
	skipParallel bool                          // set by the deadlock pass when it found a deadlock
	quickSkip    bool                          // part runs only in the thorough tier
	quickSeeds   int                           // if >0: the quick tier uses only the first n seeds (expensive isolated targets)
}

// job enumerates a deterministic chunk of a target's inputs.
type job struct {
	class string
	run   func(emit func([]byte))
}

type panicInfo struct {
	msg     string
	site    string
	stack   string
	harness bool
	kind    string // "" = panic
}

// witness of one root cause (panic site).
type witness struct {
	site    string
	kind    string
	msg     string
	stack   string
	input   []byte
	target  string
	entry   string
	count   int64
	deaths  int64
	targets map[string]int64
}

type engine struct {
	run      *report.Run
	thorough bool
	mu       sync.Mutex
	wit      map[string]*witness // by kind+site
	evals    int64
	nontriv  int64
	nworkers int
	deadline time.Time
	capped   int32
	aborted  int32 // a hang was confirmed: remaining parts are skipped (the run already fails)
}

func newEngine(run *report.Run) *engine {
	n := runtime.GOMAXPROCS(0)
	if n > 16 {
		n = 16
	}
	if n < 2 {
		n = 2
	}
	return &engine{run: run, thorough: run.Thorough(), wit: map[string]*witness{}, nworkers: n}
}

var repoFrame = regexp.MustCompile(`/pkg/([a-z0-9]+/[A-Za-z0-9_]+\.go)$`)

// capturePanic must be called from the deferred function that recovered r.
func capturePanic(r any) *panicInfo {
	pc := make([]uintptr, 64)
	n := runtime.Callers(2, pc)
	frames := runtime.CallersFrames(pc[:n])
	var sb strings.Builder
	site := ""
	seenPanic := false
	for {
		f, more := frames.Next()
		fmt.Fprintf(&sb, "%s\n\t%s:%d\n", f.Function, f.File, f.Line)
		if strings.HasSuffix(f.Function, "runtime.gopanic") || strings.HasPrefix(f.Function, "runtime.panic") || strings.HasPrefix(f.Function, "runtime.goPanic") || f.Function == "runtime.sigpanic" {
			seenPanic = true
		} else if seenPanic && site == "" && strings.Contains(f.Function, "codelaboratoryltd/bng/pkg/") && !strings.Contains(f.File, "zz_verif_") {
			file := f.File
			if m := repoFrame.FindStringSubmatch(f.File); m != nil {
				file = "pkg/" + m[1]
			}
			fn := f.Function[strings.LastIndex(f.Function, "/")+1:]
			site = fmt.Sprintf("%s:%d (%s)", file, f.Line, fn)
		}
		if !more {
			break
		}
	}
	if site == "" {
		site = "unknown"
	}
	return &panicInfo{msg: fmt.Sprint(r), site: site, stack: sb.String()}
}

func safeCall(t *target, ctx any, in []byte) (nt bool, p *panicInfo) {
	defer func() {
		if r := recover(); r != nil {
			switch x := r.(type) {
			case *panicInfo: // a panic captured in another goroutine of the code under test (CoA listener)
				p = x
			case harnessErr:
				p = &panicInfo{msg: string(x), site: "harness", harness: true}
			default:
				p = capturePanic(r)
			}
		}
	}()
	nt = t.call(ctx, in)
	return
}

// harnessErr is what the harness itself panics with when a pre-state cannot be built.
type harnessErr string

func less(a, b []byte) bool {
	if len(a) != len(b) {
		return len(a) < len(b)
	}
	return string(a) < string(b)
}

func (e *engine) record(kind string, t *target, in []byte, site, msg, stack string) {
	e.mu.Lock()
	defer e.mu.Unlock()
	key := site // one report per root cause, whatever way it surfaced (recovered panic / dead worker)
	w := e.wit[key]
	if w == nil {
		w = &witness{site: site, kind: kind, targets: map[string]int64{}}
		e.wit[key] = w
		w.input, w.target, w.entry, w.msg, w.stack = append([]byte(nil), in...), t.name, t.entry, msg, stack
	} else if less(in, w.input) || (len(in) == len(w.input) && string(in) == string(w.input) && t.name < w.target) {
		w.input, w.target, w.entry, w.msg, w.stack, w.kind = append([]byte(nil), in...), t.name, t.entry, msg, stack, kind
	}
	if kind == "worker-death" {
		w.deaths++
	}
	w.count++
	w.targets[t.name]++
}

// slot is what the hang monitor looks at.
type slot struct {
	seq   atomic.Uint64
	start atomic.Int64 // unix nanos, 0 = idle
	mu    sync.Mutex
	cur   []byte
}

// runJobs executes jobs of one target on nw in-process workers. Returns calls, nontrivial.
// onCall (may be nil) is invoked before each call with (job index, input index) — used by the child to report progress.
func (e *engine) runJobs(t *target, jobs []job, jobIdx []int, nw int, skipJob, skipIdx int, onCall func(j, i int), quiesce func()) (int64, int64, bool) {
	var calls, nontriv int64
	ch := make(chan int, len(jobs))
	for k := range jobs {
		ch <- k
	}
	close(ch)
	slots := make([]*slot, nw)
	var wg sync.WaitGroup
	hung := make(chan struct{})
	start := make(chan struct{})
	var hungOnce sync.Once
	for w := 0; w < nw; w++ {
		sl := &slot{}
		slots[w] = sl
		wg.Add(1)
		go func() {
			defer wg.Done()
			<-start // every goroutine of the harness exists before the first call (goroutine baseline)
			var ctx any
			var cleanup func()
			if t.newCtx != nil {
				ctx, cleanup = t.newCtx()
			}
			var lc, ln int64
			for k := range ch {
				if atomic.LoadInt32(&e.aborted) != 0 {
					continue
				}
				if !e.deadline.IsZero() && time.Now().After(e.deadline) {
					atomic.StoreInt32(&e.capped, 1)
					continue
				}
				jn := jobIdx[k]
				idx := 0
				jobs[k].run(func(b []byte) {
					i := idx
					idx++
					if jn < skipJob || (jn == skipJob && i <= skipIdx) {
						return
					}
					if t.prep != nil {
						b = t.prep(b)
					}
					in := make([]byte, len(b)) // cap == len: any read beyond the input panics
					copy(in, b)
					if onCall != nil {
						onCall(jn, i)
					}
					sl.mu.Lock()
					sl.cur = b
					sl.mu.Unlock()
					sl.start.Store(time.Now().UnixNano())
					nt, p := safeCall(t, ctx, in)
					sl.start.Store(0)
					sl.seq.Add(1)
					if quiesce != nil {
						quiesce()
					}
					lc++
					if nt {
						ln++
					}
					if p != nil {
						if p.harness {
							e.run.HarnessError(t.name + ": " + p.msg)
						} else {
							k := p.kind
							if k == "" {
								k = "panic"
							}
							e.record(k, t, b, p.site, p.msg, p.stack)
						}
					}
				})
			}
			if cleanup != nil {
				cleanup()
			}
			atomic.AddInt64(&calls, lc)
			atomic.AddInt64(&nontriv, ln)
		}()
	}
	done := make(chan struct{})
	go func() { close(start); wg.Wait(); close(done) }()
	tick := time.NewTicker(500 * time.Millisecond)
	defer tick.Stop()
	for {
		select {
		case <-done:
			return calls, nontriv, false
		case <-hung:
			return atomic.LoadInt64(&calls), atomic.LoadInt64(&nontriv), true
		case <-tick.C:
			now := time.Now().UnixNano()
			for _, sl := range slots {
				st := sl.start.Load()
				if st == 0 || time.Duration(now-st) < hangCap {
					continue
				}
				seq := sl.seq.Load()
				sl.mu.Lock()
				in := append([]byte(nil), sl.cur...)
				sl.mu.Unlock()
				if sl.seq.Load() != seq || sl.start.Load() != st {
					continue
				}
				// Suspected hang. The wall clock never decides a blocked call:
				//  - solo re-execution on a fresh context; if that returns, nothing is wrong;
				//  - if the solo goroutine is still RUNNING (on CPU) after another 10 s, the call is a non-terminating
				//    computation on a <= 2 KiB input (a normal evaluation takes microseconds; 10 s of CPU twice cannot be
				//    caused by load): HANG;
				//  - if it is BLOCKED: instrumented packages are decided by Engine B (deadlock or not), anything else is
				//    reported as a harness error (exit 2), never as a violation.
				switch e.confirmHang(t, in) {
				case "running":
					buf := make([]byte, 1<<16)
					buf = buf[:runtime.Stack(buf, true)]
					e.record("hang", t, in, "hang in "+t.entry, fmt.Sprintf("call still computing after %v (twice, second time alone): non-terminating loop", hangCap), string(buf))
				case "blocked":
					if t.deadlockPass {
						e.decideBlocked(t, in)
					} else {
						e.run.HarnessError(fmt.Sprintf("%s: a call stayed blocked (not running) for 2 x %v; this package is not instrumented for deadlock detection, not decided (input %x)", t.name, hangCap, in))
					}
				default:
					continue
				}
				hungOnce.Do(func() { close(hung) })
				// The stuck goroutines cannot be stopped: end the run here.
				atomic.StoreInt32(&e.aborted, 1)
				return atomic.LoadInt64(&calls), atomic.LoadInt64(&nontriv), true
			}
		}
	}
}

// confirmHang re-executes the input alone. "" = it returned; otherwise the state of the goroutine after hangCap.
func (e *engine) confirmHang(t *target, in []byte) string {
	res := make(chan struct{}, 1)
	go confirmProbe(t, in, res)
	select {
	case <-res:
		return ""
	case <-time.After(hangCap):
	}
	buf := make([]byte, 8<<20)
	buf = buf[:runtime.Stack(buf, true)]
	for _, g := range strings.Split(string(buf), "\n\n") {
		if !strings.Contains(g, "c09.confirmProbe") {
			continue
		}
		if m := gHeader.FindStringSubmatch(g); m != nil {
			if strings.HasPrefix(m[1], "running") || strings.HasPrefix(m[1], "runnable") {
				return "running"
			}
			return "blocked"
		}
	}
	return "" // finished in the meantime
}

func confirmProbe(t *target, in []byte, res chan struct{}) {
	var ctx any
	var cleanup func()
	if t.newCtx != nil {
		ctx, cleanup = t.newCtx()
	}
	cp := make([]byte, len(in))
	copy(cp, in)
	safeCall(t, ctx, cp)
	if cleanup != nil {
		cleanup()
	}
	res <- struct{}{}
}

// runTarget executes every job of t (in-process or in child processes) and accounts for it.
func (e *engine) runTarget(t *target) {
	if atomic.LoadInt32(&e.aborted) != 0 {
		e.run.AddPart(report.Part{Name: t.name, Engine: "D", Bound: boundText(t, e.thorough), Exhaustive: false, Note: "skipped: a hang was confirmed earlier in this run"})
		return
	}
	if t.skipParallel {
		return
	}
	if t.precheck != nil {
		if p := t.precheck(); p != nil {
			if p.harness {
				e.run.HarnessError(t.name + ": " + p.msg)
			} else {
				k := p.kind
				if k == "" {
					k = "panic"
				}
				e.record(k, t, nil, p.site, p.msg, p.stack)
			}
			e.run.AddPart(report.Part{Name: t.name, Engine: "D", Bound: boundText(t, e.thorough), Exhaustive: false, Note: "pre-state itself violates the property (reported); packets not delivered"})
			return
		}
	}
	jobs := buildJobs(t, e.thorough)
	t0 := time.Now()
	var calls, nt int64
	exhaustive := true
	note := ""
	if t.isolate {
		calls, nt, exhaustive, note = e.runIsolated(t, len(jobs))
	} else {
		idx := make([]int, len(jobs))
		for i := range idx {
			idx[i] = i
		}
		var hung bool
		calls, nt, hung = e.runJobs(t, jobs, idx, e.nworkers, -1, -1, nil, nil)
		if hung {
			exhaustive, note = false, "aborted after a confirmed hang"
		}
	}
	if atomic.LoadInt32(&e.capped) != 0 {
		exhaustive, note = false, "wall-clock budget reached"
	}
	e.mu.Lock()
	e.evals += calls
	e.nontriv += nt
	e.mu.Unlock()
	e.run.AddEvals(calls, nt)
	e.run.AddPart(report.Part{Name: t.name, Engine: "D", Bound: boundText(t, e.thorough), Exhaustive: exhaustive,
		Note: strings.TrimSpace(fmt.Sprintf("jobs=%d calls=%d nontrivial=%d %.1fs %s", len(jobs), calls, nt, time.Since(t0).Seconds(), note))})
	if os.Getenv("C09_VERBOSE") != "" {
		fmt.Printf("  part %-55s jobs=%-5d calls=%-9d nontrivial=%-9d %.1fs %s\n", t.name, len(jobs), calls, nt, time.Since(t0).Seconds(), note)
	}
}

func boundText(t *target, thorough bool) string {
	b := fmt.Sprintf("%d seeds: truncations, position x boundary values, 8-bit length fields x 256, 16-bit length fields x boundary values, strings<=%d", len(t.seeds), min(t.strN, map[bool]int{false: 2, true: 3}[thorough]))
	if len(t.wraps) > 0 {
		b += fmt.Sprintf(" (+%d framings)", len(t.wraps))
	}
	b += ", 2KiB padded/repeated"
	if !thorough && t.quickLite {
		b = fmt.Sprintf("%d seeds: truncations, 8-bit length fields x 256, 16-bit length fields x boundary values, 2KiB padded/repeated (full generator in thorough)", len(t.seeds))
	}
	if thorough {
		b += ", length-field pairs"
		if !t.light {
			b += ", 16-bit fields x 65536"
		}
	}
	return b
}

// ---------------------------------------------------------------- isolation

type childMsg struct {
	Viol  *childViol `json:"viol,omitempty"`
	Done  bool       `json:"done,omitempty"`
	Evals int64      `json:"evals,omitempty"`
	NT    int64      `json:"nt,omitempty"`
	Hung  bool       `json:"hung,omitempty"`
}
type childViol struct {
	Kind, Site, Msg, Stack, Input string
	Count                         int64
}

// runIsolated runs the target's jobs in child processes (shards), restarting a shard after
// the input that killed it. A dead worker is a violation with the last input it started.
func (e *engine) runIsolated(t *target, njobs int) (calls, nt int64, exhaustive bool, note string) {
	shards := e.nworkers
	if shards > njobs {
		shards = njobs
	}
	if shards < 1 {
		shards = 1
	}
	exhaustive = true
	var mu sync.Mutex
	var wg sync.WaitGroup
	for s := 0; s < shards; s++ {
		wg.Add(1)
		go func(s int) {
			defer wg.Done()
			skip := ""
			deaths := 0
			for {
				res := e.runChild(t, fmt.Sprintf("%d/%d", s, shards), skip, "")
				mu.Lock()
				calls += res.evals
				nt += res.nt
				mu.Unlock()
				if res.done {
					return
				}
				if res.harnessErr != "" {
					e.run.HarnessError(fmt.Sprintf("%s shard %d: %s", t.name, s, res.harnessErr))
					mu.Lock()
					exhaustive, note = false, "child failed to start"
					mu.Unlock()
					return
				}
				// The child died or hung at (lastJob,lastIdx).
				if res.lastJob < 0 {
					e.run.HarnessError(fmt.Sprintf("%s shard %d: child died before its first call: %s", t.name, s, tail(res.stderr, 600)))
					return
				}
				if !res.hung {
					in := e.regenerate(t, res.lastJob, res.lastIdx)
					site, msg := siteFromStderr(res.stderr)
					e.record("worker-death", t, in, site, msg, tail(res.stderr, 4000))
				}
				deaths++
				if deaths >= 40 {
					mu.Lock()
					exhaustive, note = false, "shard stopped after 40 worker deaths (violations recorded)"
					mu.Unlock()
					return
				}
				skip = fmt.Sprintf("%d:%d", res.lastJob, res.lastIdx)
			}
		}(s)
	}
	wg.Wait()
	return
}

type childResult struct {
	done             bool
	hung             bool
	evals, nt        int64
	lastJob, lastIdx int
	stderr           string
	harnessErr       string
}

func tail(s string, n int) string {
	if len(s) > n {
		return s[len(s)-n:]
	}
	return s
}

var stderrFrame = regexp.MustCompile(`(?m)^(github\.com/codelaboratoryltd/bng/pkg/[^\s(]+(?:\([^)]*\))?[^\s(]*)\(.*\)\n\t(\S+?/pkg/([a-z0-9]+/[A-Za-z0-9_]+\.go)):(\d+)`)

func siteFromStderr(s string) (site, msg string) {
	msg = "worker process died"
	if i := strings.Index(s, "panic: "); i >= 0 {
		line := s[i:]
		if j := strings.IndexByte(line, '\n'); j >= 0 {
			line = line[:j]
		}
		msg = line
		s = s[i:]
	} else if i := strings.Index(s, "fatal error: "); i >= 0 {
		line := s[i:]
		if j := strings.IndexByte(line, '\n'); j >= 0 {
			line = line[:j]
		}
		msg = line
		s = s[i:]
	}
	for _, m := range stderrFrame.FindAllStringSubmatch(s, -1) {
		if strings.Contains(m[2], "zz_verif_") {
			continue
		}
		fn := m[1][strings.LastIndex(m[1], "/")+1:]
		return fmt.Sprintf("pkg/%s:%s (%s)", m[3], m[4], fn), msg
	}
	return "unknown (worker death)", msg
}

func (e *engine) runChild(t *target, shard, skip, one string) childResult {
	res := childResult{lastJob: -1, lastIdx: -1}
	args := []string{"-test.run=^TestCheck$", "-test.timeout=0", "-tier", e.run.Tier, "-c09child", t.name, "-c09shard", shard}
	if skip != "" {
		args = append(args, "-c09skip", skip)
	}
	if one != "" {
		args = append(args, "-c09one", one)
	}
	cmd := exec.Command(os.Args[0], args...)
	cmd.Env = append(os.Environ(), "GOMAXPROCS=2") // one worker + the goroutines of the code under test
	pr, pw, err := os.Pipe()
	if err != nil {
		res.harnessErr = err.Error()
		return res
	}
	cmd.ExtraFiles = []*os.File{pw}
	var stderr strings.Builder
	cmd.Stderr = &limitedWriter{w: &stderr, n: 1 << 20}
	if d := os.Getenv("C09_CHILD_STDERR"); d != "" { // debugging aid
		if f, err := os.Create(d + "/" + strings.ReplaceAll(shard, "/", "of") + fmt.Sprintf("-%d.err", time.Now().UnixNano())); err == nil {
			cmd.Stderr = f
			defer f.Close()
		}
	}
	out, err := cmd.StdoutPipe()
	if err != nil {
		res.harnessErr = err.Error()
		return res
	}
	if err := cmd.Start(); err != nil {
		res.harnessErr = err.Error()
		return res
	}
	pw.Close()
	var pg sync.WaitGroup
	pg.Add(1)
	go func() {
		defer pg.Done()
		buf := make([]byte, 8)
		for {
			if _, err := io.ReadFull(pr, buf); err != nil {
				return
			}
			res.lastJob = int(binary.LittleEndian.Uint32(buf[0:4]))
			res.lastIdx = int(binary.LittleEndian.Uint32(buf[4:8]))
		}
	}()
	sc := bufio.NewScanner(out)
	sc.Buffer(make([]byte, 1<<20), 1<<26)
	for sc.Scan() {
		line := sc.Bytes()
		if len(line) == 0 || line[0] != '{' {
			continue
		}
		var m childMsg
		if json.Unmarshal(line, &m) != nil {
			continue
		}
		if m.Viol != nil {
			in, _ := hex.DecodeString(m.Viol.Input)
			e.record(m.Viol.Kind, t, in, m.Viol.Site, m.Viol.Msg, m.Viol.Stack)
			e.mu.Lock()
			if w := e.wit[m.Viol.Site]; w != nil && m.Viol.Count > 1 {
				w.count += m.Viol.Count - 1
				w.targets[t.name] += m.Viol.Count - 1
			}
			e.mu.Unlock()
		}
		if m.Done || m.Hung {
			res.done, res.hung, res.evals, res.nt = m.Done, m.Hung, m.Evals, m.NT
		}
	}
	cmd.Wait()
	pg.Wait()
	pr.Close()
	res.stderr = stderr.String()
	return res
}

type limitedWriter struct {
	w io.Writer
	n int
}

func (l *limitedWriter) Write(p []byte) (int, error) {
	if l.n > 0 {
		q := p
		if len(q) > l.n {
			q = q[:l.n]
		}
		l.w.Write(q)
		l.n -= len(q)
	}
	return len(p), nil
}

// regenerate returns input #idx of job #jobNo of t (after prep).
func (e *engine) regenerate(t *target, jobNo, idx int) []byte {
	jobs := buildJobs(t, e.thorough)
	if jobNo < 0 || jobNo >= len(jobs) {
		return nil
	}
	var out []byte
	i := 0
	jobs[jobNo].run(func(b []byte) {
		if i == idx {
			if t.prep != nil {
				b = t.prep(b)
			}
			out = append([]byte(nil), b...)
		}
		i++
	})
	return out
}

// childMain is TestCheck in a child process: run one shard of one target with a single worker,
// reporting progress on fd 3 and results as JSON lines on stdout.
func childMain(run *report.Run, ts []*target) int {
	var t *target
	for _, x := range ts {
		if x.name == *flagChild {
			t = x
		}
	}
	if t == nil {
		fmt.Fprintln(os.Stderr, "unknown target", *flagChild)
		return 2
	}
	e := newEngine(run)
	prog := os.NewFile(3, "progress")
	enc := json.NewEncoder(os.Stdout)
	base := 0
	quiesce := func() {
		// wait until goroutines started by the call have finished, so that a panic in one of
		// them is attributed to the input that started it
		for i := 0; i < 200000; i++ {
			if runtime.NumGoroutine() <= base {
				return
			}
			if i < 100 {
				runtime.Gosched()
			} else {
				time.Sleep(50 * time.Microsecond)
			}
		}
	}
	if *flagOne != "" {
		in, err := hex.DecodeString(*flagOne)
		if err != nil {
			return 2
		}
		var ctx any
		var cleanup func()
		if t.newCtx != nil {
			ctx, cleanup = t.newCtx()
		}
		base = runtime.NumGoroutine()
		cp := make([]byte, len(in))
		copy(cp, in)
		binary.Write(prog, binary.LittleEndian, [2]uint32{0, 0})
		_, p := safeCall(t, ctx, cp)
		quiesce()
		if cleanup != nil {
			cleanup()
		}
		if p != nil {
			enc.Encode(childMsg{Viol: &childViol{Kind: map[bool]string{true: "panic", false: p.kind}[p.kind == ""], Site: p.site, Msg: p.msg, Stack: p.stack, Input: *flagOne, Count: 1}})
		}
		enc.Encode(childMsg{Done: true, Evals: 1})
		return 0
	}
	var si, sn int
	fmt.Sscanf(*flagShard, "%d/%d", &si, &sn)
	if sn < 1 {
		sn = 1
	}
	skipJob, skipIdx := -1, -1
	if *flagSkip != "" {
		fmt.Sscanf(*flagSkip, "%d:%d", &skipJob, &skipIdx)
	}
	all := buildJobs(t, e.thorough)
	var jobs []job
	var idx []int
	for k := range all {
		if k%sn == si && k >= skipJob {
			jobs = append(jobs, all[k])
			idx = append(idx, k)
		}
	}
	var pbuf [8]byte
	onCall := func(j, i int) {
		binary.LittleEndian.PutUint32(pbuf[0:4], uint32(j))
		binary.LittleEndian.PutUint32(pbuf[4:8], uint32(i))
		prog.Write(pbuf[:])
	}
	calls, nt, hung := e.runJobsChild(t, jobs, idx, skipJob, skipIdx, onCall, quiesce, &base)
	for _, w := range e.sorted() {
		enc.Encode(childMsg{Viol: &childViol{Kind: w.kind, Site: w.site, Msg: w.msg, Stack: w.stack, Input: hex.EncodeToString(w.input), Count: w.count}})
	}
	if hung {
		enc.Encode(childMsg{Hung: true, Evals: calls, NT: nt})
		return 3
	}
	enc.Encode(childMsg{Done: true, Evals: calls, NT: nt})
	return 0
}

// runJobsChild: like runJobs with one worker, but the goroutine baseline for quiescence is
// taken by the worker itself just before its first call.
func (e *engine) runJobsChild(t *target, jobs []job, idx []int, skipJob, skipIdx int, onCall func(j, i int), quiesce func(), base *int) (int64, int64, bool) {
	first := true
	oc := func(j, i int) {
		if first {
			first = false
			*base = runtime.NumGoroutine()
		}
		onCall(j, i)
	}
	return e.runJobs(t, jobs, idx, 1, skipJob, skipIdx, oc, quiesce)
}

func (e *engine) sorted() []*witness {
	e.mu.Lock()
	defer e.mu.Unlock()
	var ws []*witness
	for _, w := range e.wit {
		ws = append(ws, w)
	}
	sort.Slice(ws, func(i, j int) bool { return ws[i].site < ws[j].site })
	return ws
}

// report turns root-cause witnesses into violations (one per panic site, shortest input).
func (e *engine) reportViolations() {
	for _, w := range e.sorted() {
		var hit []string
		for n, c := range w.targets {
			hit = append(hit, fmt.Sprintf("%s x%d", n, c))
		}
		sort.Strings(hit)
		if len(hit) > 12 {
			hit = append(hit[:12], fmt.Sprintf("... %d more", len(hit)-12))
		}
		v := report.Violation{
			Part: w.entry, Kind: w.kind, Site: w.site,
			Detail: fmt.Sprintf("%s; shortest input %d bytes via %s; %d inputs hit this site (%d of them killed the worker process from a goroutine): %s", w.msg, len(w.input), w.target, w.count, w.deaths, strings.Join(hit, ", ")),
			Trace:  []string{w.target, hex.EncodeToString(w.input)},
			Extra:  map[string]any{"target": w.target, "input_hex": hex.EncodeToString(w.input), "stack": tail(w.stack, 6000)},
		}
		classify(&v)
		e.run.Violation(v)
	}
}
