package c09

import (
	"bytes"
	"context"
	"crypto/md5"
	"encoding/binary"
	"fmt"
	"net"
	"strings"
	"sync"
	"time"

	"github.com/codelaboratoryltd/bng/pkg/allocator"
	"github.com/codelaboratoryltd/bng/pkg/dhcp"
	"github.com/codelaboratoryltd/bng/pkg/dhcpv6"
	"github.com/codelaboratoryltd/bng/pkg/ebpf"
	"github.com/codelaboratoryltd/bng/pkg/ha"
	"github.com/codelaboratoryltd/bng/pkg/nat"
	"github.com/codelaboratoryltd/bng/pkg/pppoe"
	"github.com/codelaboratoryltd/bng/pkg/qos"
	"github.com/codelaboratoryltd/bng/pkg/radius"
	"github.com/codelaboratoryltd/bng/pkg/ztp"
	"go.uber.org/zap"
)

var nop = zap.NewNop()

var (
	clientMAC = net.HardwareAddr{0x02, 0x00, 0x00, 0xaa, 0xbb, 0x01}
	serverMAC = net.HardwareAddr{0x02, 0x00, 0x00, 0x00, 0x00, 0xfe}
)

func pure(entry string, seeds []seed, f func(in []byte) bool) *target {
	return &target{name: entry, entry: entry, seeds: seeds, strN: 3, call: func(_ any, in []byte) bool { return f(in) }}
}

// ---------------------------------------------------------------- PPP automata pre-states

var cpStates = []string{"Initial", "Starting", "Closed", "Stopped", "Closing", "Stopping", "Req-Sent", "Ack-Rcvd", "Ack-Sent", "Opened"}

// cpMachine abstracts the three RFC 1661 automata (same public surface).
type cpMachine interface {
	Up()
	Down()
	Open()
	Close()
	ReceivePacket([]byte) error
}

// script drives a fresh automaton into the named state with a scripted prefix.
// okReq is a Configure-Request the automaton acks; ack id is always 1 (first request sent).
func script(m cpMachine, state string, okReq []byte) {
	ack := []byte{2, 1, 0, 4}
	term := []byte{5, 9, 0, 4}
	switch state {
	case "Initial":
	case "Starting":
		m.Open()
	case "Closed":
		m.Up()
	case "Req-Sent":
		m.Up()
		m.Open()
	case "Stopped":
		m.Up()
		m.Open()
		m.ReceivePacket(term)
	case "Closing":
		m.Up()
		m.Open()
		m.Close()
	case "Ack-Rcvd":
		m.Up()
		m.Open()
		m.ReceivePacket(ack)
	case "Ack-Sent":
		m.Up()
		m.Open()
		m.ReceivePacket(okReq)
	case "Opened":
		m.Up()
		m.Open()
		m.ReceivePacket(okReq)
		m.ReceivePacket(ack)
	case "Stopping":
		m.Up()
		m.Open()
		m.ReceivePacket(okReq)
		m.ReceivePacket(ack)
		m.ReceivePacket(term)
	}
}

type sentCounter struct{ n int }

func (s *sentCounter) send(uint16, []byte) { s.n++ }

func newLCP(state string) (*pppoe.LCPStateMachine, *sentCounter) {
	cfg := pppoe.DefaultLCPConfig()
	cfg.MagicNumber = ourMagic
	cfg.RestartTimer = time.Hour // restart timers never fire during a call
	sc := &sentCounter{}
	m, err := pppoe.NewLCPStateMachine(cfg, sc.send, nop)
	if err != nil {
		panic(err)
	}
	script(m, state, lcpSeeds()[0].data)
	return m, sc
}

func newIPCP(state string, peer bool) (*pppoe.IPCPStateMachine, *sentCounter) {
	cfg := pppoe.DefaultIPCPConfig()
	cfg.RestartTimer = time.Hour
	cfg.PrimaryDNS = net.ParseIP("8.8.8.8")
	cfg.SecondaryDNS = net.ParseIP("8.8.4.4")
	if peer {
		cfg.PeerIP = net.ParseIP("10.0.0.2")
	}
	sc := &sentCounter{}
	m := pppoe.NewIPCPStateMachine(cfg, "sess", sc.send, nop)
	script(m, state, ipcpSeeds()[1].data)
	return m, sc
}

func newIPV6CP(state string) (*pppoe.IPV6CPStateMachine, *sentCounter) {
	cfg := pppoe.IPV6CPConfig{LocalInterfaceID: ourIfID, MaxRetransmit: 10, RestartTimer: time.Hour}
	sc := &sentCounter{}
	m, err := pppoe.NewIPV6CPStateMachine(cfg, sc.send, nop)
	if err != nil {
		panic(err)
	}
	script(m, state, ipv6cpSeeds()[0].data)
	return m, sc
}

func checkStates() []string {
	var bad []string
	for _, st := range cpStates {
		m, _ := newLCP(st)
		if got := m.GetState().String(); got != st {
			bad = append(bad, fmt.Sprintf("LCP script for %s reached %s", st, got))
		}
		m.Down()
		i, _ := newIPCP(st, true)
		if got := i.GetState().String(); got != st {
			bad = append(bad, fmt.Sprintf("IPCP script for %s reached %s", st, got))
		}
		i.Down()
		v, _ := newIPV6CP(st)
		if got := v.GetState().String(); got != st {
			bad = append(bad, fmt.Sprintf("IPV6CP script for %s reached %s", st, got))
		}
		v.Down()
	}
	return bad
}

// ---------------------------------------------------------------- PPPoE server pre-states

var sessionStates = []pppoe.SessionState{pppoe.StateDiscovery, pppoe.StateLCPNegotiation, pppoe.StateAuthentication,
	pppoe.StateIPCPNegotiation, pppoe.StateEstablished, pppoe.StateTerminating, pppoe.StateClosed}

func newPPPoEServer(auth string, st pppoe.SessionState, withSession bool) (*pppoe.Server, *pppoe.Session) {
	return newPPPoEServerCfg(auth, st, withSession, false, nil)
}

// bare: no client pool, no DNS servers, default names; rc: optional RADIUS client (PAP goes to RADIUS)
func newPPPoEServerCfg(auth string, st pppoe.SessionState, withSession, bare bool, rc *radius.Client) (*pppoe.Server, *pppoe.Session) {
	cfg := pppoe.ServerConfig{Interface: "veth0", ACName: "ac", ServiceName: "internet", ServerIP: "10.0.0.1",
		ClientPool: "10.0.0.0/28", PrimaryDNS: "8.8.8.8", SecondaryDNS: "8.8.4.4", AuthType: auth}
	if bare {
		cfg = pppoe.ServerConfig{Interface: "veth0", AuthType: auth}
	}
	srv, err := pppoe.VerifC09NewServer(cfg, serverMAC, nop)
	if err != nil {
		panic(err)
	}
	if rc != nil {
		srv.SetRADIUSClient(rc)
	}
	if !withSession {
		return srv, nil
	}
	s, err := srv.VerifC09AddSession(clientMAC) // gets session id 1
	if err != nil || s.ID != 1 {
		panic(harnessErr(fmt.Sprint("session setup: ", err)))
	}
	if st >= pppoe.StateIPCPNegotiation {
		s.Username, s.Authenticated = "alice", true
		if !bare {
			s.ClientIP, s.ServerIP = net.IPv4(10, 0, 0, 2), net.IPv4(10, 0, 0, 1)
		}
	}
	s.SetState(st)
	return srv, s
}

// ---------------------------------------------------------------- DHCPv4

type fakeConn struct{ writes int }

func (c *fakeConn) ReadFrom([]byte) (int, net.Addr, error) { return 0, nil, net.ErrClosed }
func (c *fakeConn) WriteTo(b []byte, _ net.Addr) (int, error) {
	c.writes++
	return len(b), nil
}
func (c *fakeConn) Close() error                     { return nil }
func (c *fakeConn) LocalAddr() net.Addr              { return &net.UDPAddr{IP: net.IPv4(10, 0, 1, 1), Port: 67} }
func (c *fakeConn) SetDeadline(time.Time) error      { return nil }
func (c *fakeConn) SetReadDeadline(time.Time) error  { return nil }
func (c *fakeConn) SetWriteDeadline(time.Time) error { return nil }

type dhcpCfg struct {
	expired    bool // pool lease time is negative: every lease is already expired when the cleanup tick looks at it
	mgrs       bool // QoS manager (with a policy manager) and NAT manager with one public address configured
	nopool     bool // pool manager without any pool
	loader     bool
	radius     string // "", "accept", "reject", "acct-only"
	prestate   string // "fresh", "leased", "leased82"
	radiusAddr *net.UDPAddr
}

func newDHCP(c dhcpCfg) (*dhcp.Server, *fakeConn) {
	var ld *ebpf.Loader
	if c.loader {
		var err error
		ld, err = ebpf.NewLoader("lo", nop) // never Load()ed: every map is nil, as on a host without the fast path
		if err != nil {
			panic(err)
		}
	}
	pm := dhcp.NewPoolManager(ld, nop)
	pool, err := dhcp.NewPool(dhcp.PoolConfig{ID: 1, Name: "p", Network: "10.0.1.0/24", Gateway: "10.0.1.1", DNSServers: []string{"8.8.8.8"},
		LeaseTime: map[bool]time.Duration{false: time.Hour, true: -time.Hour}[c.expired], ClientClass: dhcp.ClientClassResidential, ReservedStart: 10})
	if err != nil {
		panic(err)
	}
	if !c.nopool {
		pm.AddPool(pool)
	}
	s, err := dhcp.NewServer(dhcp.ServerConfig{Interface: "lo", ServerIP: net.IPv4(10, 0, 1, 1), RADIUSAuthEnabled: c.radius == "accept" || c.radius == "reject"}, ld, pm, nop)
	if err != nil {
		panic(err)
	}
	if c.radius != "" {
		rc, err := radius.NewClient(radius.ClientConfig{Servers: []radius.ServerConfig{{Host: "127.0.0.1", Port: c.radiusAddr.Port, Secret: coaSecret}},
			NASID: "bng", Timeout: 5 * time.Second, Retries: 1, RateLimit: radius.RateLimitConfig{RequestsPerSecond: 1e9, BurstSize: 1 << 30}}, nop)
		if err != nil {
			panic(err)
		}
		s.SetRADIUSClient(rc)
	}
	if c.mgrs {
		pol := radius.NewPolicyManager()
		qm, err := qos.NewManager(qos.ManagerConfig{Interface: "lo"}, pol, nop) // never Start()ed: maps nil
		if err != nil {
			panic(err)
		}
		nm, err := nat.NewManager(nat.ManagerConfig{Interface: "lo"}, nop)
		if err != nil {
			panic(err)
		}
		nm.AddPublicIP(net.IPv4(203, 0, 113, 1))
		s.SetPolicyManager(pol)
		s.SetQoSManager(qm)
		s.SetNATManager(nm)
	}
	fc := &fakeConn{}
	peer := &net.UDPAddr{IP: net.IPv4(10, 0, 1, 50), Port: 68}
	seeds := dhcp4Seeds()
	switch c.prestate {
	case "leased":
		s.VerifC09Handle(fc, peer, seeds[0].data)
		s.VerifC09Handle(fc, peer, seeds[1].data)
	case "leased82":
		s.VerifC09Handle(fc, peer, seeds[3].data)
		s.VerifC09Handle(fc, peer, seeds[2].data)
	}
	if c.prestate != "fresh" && !c.nopool && s.ActiveLeases() != 1 {
		panic(harnessErr("dhcp pre-state: lease not created"))
	}
	fc.writes = 0
	return s, fc
}

func radiusClientFor(f *fakeRADIUS) *radius.Client {
	rc, err := radius.NewClient(radius.ClientConfig{Servers: []radius.ServerConfig{{Host: "127.0.0.1", Port: f.auth.LocalAddr().(*net.UDPAddr).Port, Secret: coaSecret}},
		NASID: "bng", Timeout: 5 * time.Second, Retries: 1, RateLimit: radius.RateLimitConfig{RequestsPerSecond: 1e9, BurstSize: 1 << 30}}, nop)
	if err != nil {
		panic(err)
	}
	return rc
}

// fakeRADIUS answers Access-Request (accept or reject) and Accounting-Request on two adjacent
// loopback ports (the client derives the accounting port as auth+1).
type fakeRADIUS struct {
	auth, acct *net.UDPConn
}

func startFakeRADIUS(accept bool) *fakeRADIUS {
	for try := 0; try < 200; try++ {
		a, err := net.ListenUDP("udp4", &net.UDPAddr{IP: net.IPv4(127, 0, 0, 1), Port: 0})
		if err != nil {
			continue
		}
		p := a.LocalAddr().(*net.UDPAddr).Port
		if p == 1812 || p >= 65535 {
			a.Close()
			continue
		}
		b, err := net.ListenUDP("udp4", &net.UDPAddr{IP: net.IPv4(127, 0, 0, 1), Port: p + 1})
		if err != nil {
			a.Close()
			continue
		}
		f := &fakeRADIUS{a, b}
		go f.serve(a, accept)
		go f.serve(b, accept)
		return f
	}
	panic("cannot bind two adjacent loopback ports for the fake RADIUS server")
}

func (f *fakeRADIUS) serve(c *net.UDPConn, accept bool) {
	buf := make([]byte, 4096)
	for {
		n, from, err := c.ReadFromUDP(buf)
		if err != nil {
			return
		}
		if n < 20 {
			continue
		}
		var code byte
		var attrs []byte
		switch buf[0] {
		case 1:
			if accept {
				code = 2
				attrs = append(attrs, 25, 6, 'c', 'l', 's', '1') // Class
				attrs = append(attrs, 11, 6, 'g', 'o', 'l', 'd') // Filter-Id
			} else {
				code = 3
				attrs = append(attrs, 18, 6, 'n', 'o', 'p', 'e')
			}
		case 4:
			code = 5
		default:
			continue
		}
		out := make([]byte, 20+len(attrs))
		out[0], out[1] = code, buf[1]
		binary.BigEndian.PutUint16(out[2:], uint16(len(out)))
		copy(out[20:], attrs)
		h := md5.New()
		h.Write(out[:4])
		h.Write(buf[4:20])
		h.Write(attrs)
		h.Write([]byte(coaSecret))
		copy(out[4:20], h.Sum(nil))
		c.WriteToUDP(out, from)
	}
}

func (f *fakeRADIUS) close() { f.auth.Close(); f.acct.Close() }

// radiusOrder puts request, request-relayed-opt82, release, discover first (the quick tier of the
// RADIUS-configured parts uses only those).
func radiusOrder(s []seed) []seed {
	return []seed{s[1], s[2], s[5], s[0], s[3], s[4], s[6], s[7]}
}

// ---------------------------------------------------------------- DHCPv6

func serverDUID6() []byte {
	ifc, err := net.InterfaceByName("lo")
	if err != nil {
		panic(err)
	}
	return append([]byte{0, 3, 0, 1}, ifc.HardwareAddr...)
}

// v6cfg: which of the four allocation back-ends the server is built with, and DNS on/off.
// The handlers branch on each of them (hasAddressPool/hasPrefixPool/get*Lifetime/allocate*/release*).
type v6cfg struct {
	name string
	addr string // "", "legacy", "integrated"
	pd   string // "", "legacy", "integrated"
	dns  bool
}

var v6cfgs = []v6cfg{
	{"legacy addr+pd", "legacy", "legacy", true},
	{"no pools", "", "", true},
	{"integrated addr+pd", "integrated", "integrated", true},
	{"integrated addr only", "integrated", "", true},
	{"integrated pd only", "", "integrated", true},
	{"legacy addr only", "legacy", "", false},
	{"legacy pd only", "", "legacy", true},
	{"integrated addr + legacy pd", "integrated", "legacy", false},
}

func newDHCP6(c v6cfg, prestate string) *dhcpv6.Server {
	cfg := dhcpv6.ServerConfig{Interface: "lo"}
	if c.dns {
		cfg.DNSServers = []string{"2001:4860:4860::8888"}
	}
	if c.addr == "integrated" || c.pd == "integrated" {
		cfg.AllocationStore = allocator.NewMemoryAllocationStore()
	}
	switch c.addr {
	case "legacy":
		cfg.AddressPool = "2001:db8::/120"
	case "integrated":
		a, err := allocator.NewPoolAllocatorWithType(allocator.PoolAllocatorConfig{PoolID: "v6addr", BaseNetwork: "2001:db8::/120", PrefixLength: 128,
			PoolType: allocator.PoolTypeIPv6Address, Store: cfg.AllocationStore})
		if err != nil {
			panic(harnessErr("v6 address allocator: " + err.Error()))
		}
		cfg.AddressAllocator = a
	}
	switch c.pd {
	case "legacy":
		cfg.PrefixPool, cfg.DelegationLength = "2001:db8:ff00::/56", 60
	case "integrated":
		a, err := allocator.NewPoolAllocatorWithType(allocator.PoolAllocatorConfig{PoolID: "v6pd", BaseNetwork: "2001:db8:ff00::/56", PrefixLength: 60,
			PoolType: allocator.PoolTypeIPv6Prefix, Store: cfg.AllocationStore})
		if err != nil {
			panic(harnessErr("v6 prefix allocator: " + err.Error()))
		}
		cfg.PrefixAllocator = a
	}
	s, err := dhcpv6.NewServer(cfg, nop)
	if err != nil {
		panic(err)
	}
	s.VerifC09SetConn(closedUDP()) // answers fail with "use of closed network connection" (logged), no I/O
	if prestate == "lease" {
		s.VerifC09Handle(dhcp6Seeds(serverDUID6())[1].data, from6)
		if s.VerifC09Leases() != 1 {
			panic(harnessErr("dhcpv6 pre-state: no lease"))
		}
	}
	return s
}

var closedOnce sync.Once
var closedConn *net.UDPConn

// closedUDP is a bound-then-closed socket: the server's WriteToUDP returns an error instead of sending.
func closedUDP() *net.UDPConn {
	closedOnce.Do(func() {
		c, err := net.ListenUDP("udp", &net.UDPAddr{IP: net.IPv4(127, 0, 0, 1)})
		if err != nil {
			panic(err)
		}
		c.Close()
		closedConn = c
	})
	return closedConn
}

var from6 = &net.UDPAddr{IP: net.ParseIP("fe80::1"), Port: 546, Zone: "lo"}

// ---------------------------------------------------------------- CoA over loopback with fences

type coaCtx struct {
	srv    *radius.CoAServer
	sconn  *net.UDPConn
	client *net.UDPConn
	panics chan *panicInfo
	fence  []byte
	stop   context.CancelFunc
	dirty  bool
}

func newCoA() (any, func()) { return newCoACfg(false) }

func newCoAHandlers() (any, func()) { return newCoACfg(true) }

func newCoACfg(handlers bool) (any, func()) {
	srv, err := radius.NewCoAServer(radius.CoAServerConfig{Address: "127.0.0.1:0", Secret: coaSecret}, nop)
	if err != nil {
		panic(err)
	}
	if handlers { // application handlers installed: NAK with Error-Cause + Reply-Message / ACK for disconnect
		srv.SetCoAHandler(func(_ context.Context, r *radius.CoARequest) *radius.CoAResponse {
			if r.SessionID == "" { // the fence carries no attributes and must be ACKed
				return &radius.CoAResponse{Success: true}
			}
			return &radius.CoAResponse{Success: false, ErrorCause: radius.ErrorCauseSessionContextNotFound, Message: "no such session " + r.SessionID + r.Username + r.FilterID}
		})
		srv.SetDisconnectHandler(func(_ context.Context, r *radius.DisconnectRequest) *radius.DisconnectResponse {
			return &radius.DisconnectResponse{Success: r.AcctSessionID != "", ErrorCause: radius.ErrorCauseMissingAttribute, Message: r.Username}
		})
		srv.SetSessionLookup(func(string) bool { return true })
	}
	sc, err := net.ListenUDP("udp4", &net.UDPAddr{IP: net.IPv4(127, 0, 0, 1)})
	if err != nil {
		panic(err)
	}
	cl, err := net.DialUDP("udp4", nil, sc.LocalAddr().(*net.UDPAddr))
	if err != nil {
		panic(err)
	}
	ctx, cancel := context.WithCancel(context.Background())
	c := &coaCtx{srv: srv, sconn: sc, client: cl, panics: make(chan *panicInfo, 4), stop: cancel}
	c.fence = coaSeeds()[2].data // CoA-Request without attributes; answered with CoA-ACK
	go func() {
		for ctx.Err() == nil {
			func() {
				defer func() {
					if r := recover(); r != nil {
						c.panics <- capturePanic(r)
					}
				}()
				srv.VerifC09Serve(ctx, sc) // the REAL receive loop
			}()
		}
	}()
	return c, func() { cancel(); srv.Stop(); cl.Close() }
}

// coaCall sends one datagram followed by a fence and waits for the fence's answer; a panic of
// the listener while processing the datagram is re-raised here with the listener's stack.
func coaCall(cx any, in []byte) bool {
	c := cx.(*coaCtx)
	buf := make([]byte, 4096)
	if c.dirty { // a fence was re-sent in the previous call: drop stale answers
		for {
			c.client.SetReadDeadline(time.Now().Add(20 * time.Millisecond))
			if _, err := c.client.Read(buf); err != nil {
				break
			}
		}
		c.dirty = false
	}
	fid := byte(0xA5)
	if len(in) >= 2 {
		fid = in[1] ^ 0xff
	}
	mkFence := func(id byte) []byte {
		f := append([]byte(nil), c.fence...)
		f[1] = id
		return coaSign(f)
	}
	c.client.Write(in)
	c.client.Write(mkFence(fid))
	replied := false
	var pi *panicInfo
	start := time.Now()
	lastSend := start
	for {
		c.client.SetReadDeadline(time.Now().Add(10 * time.Millisecond))
		n, err := c.client.Read(buf)
		if err == nil && n >= 20 {
			if buf[0] == radius.CodeCoAACK && buf[1] == fid {
				break
			}
			if len(in) >= 2 && buf[1] == in[1] {
				replied = true
			}
			continue
		}
		select {
		case p := <-c.panics:
			pi = p
		default:
		}
		if time.Since(lastSend) > 2*time.Second { // fence lost or listener stuck: ask again
			c.dirty = true
			c.client.Write(mkFence(fid))
			lastSend = time.Now()
		}
		if time.Since(start) > 6*hangCap {
			return replied // the hang monitor has long since examined this call
		}
	}
	if pi == nil {
		select {
		case p := <-c.panics:
			pi = p
		default:
		}
	}
	if pi != nil {
		panic(pi)
	}
	return replied
}

// ---------------------------------------------------------------- all targets

func allTargets() []*target {
	var ts []*target
	add := func(t *target) {
		if t.strN == 0 {
			t.strN = 2
		}
		// stateful handlers of the packages compiled with the cooperative sync shims (see REWRITE) also get the
		// Engine B deadlock pass; synctest parts (precheck) and child-process parts are excluded
		if t.strN < 3 && !t.isolate && t.precheck == nil && !strings.Contains(t.name, "Parse") &&
			(strings.HasPrefix(t.name, "pppoe.") || strings.HasPrefix(t.name, "ha.HASyncer") || strings.HasPrefix(t.name, "dhcp.Server")) {
			t.deadlockPass = true
		}
		ts = append(ts, t)
	}

	// ---- pure decoders
	add(pure("pppoe.ParsePPPoEHeader", discoverySeeds(), func(in []byte) bool { h, err := pppoe.ParsePPPoEHeader(in); return err == nil && h != nil }))
	add(pure("pppoe.ParseTags", tagSeeds(), func(in []byte) bool { t, err := pppoe.ParseTags(in); return err == nil && len(t) > 0 }))
	add(pure("pppoe.ParseLCPPacket", lcpSeeds(), func(in []byte) bool { p, err := pppoe.ParseLCPPacket(in); return err == nil && p != nil }))
	add(pure("pppoe.ParseLCPOptions", lcpOptionSeeds(), func(in []byte) bool { o, err := pppoe.ParseLCPOptions(in); return err == nil && len(o) > 0 }))
	add(pure("pppoe.ParsePADT", discoverySeeds(), func(in []byte) bool { sid, _, err := pppoe.ParsePADT(in); return err == nil && sid != 0 }))
	add(pure("pppoe.ParseEchoPacket", []seed{{name: "echo", data: lcpSeeds()[10].data[4:]}, {name: "echo-min", data: be32(7)}, {name: "echo-short", data: []byte{1, 2, 3}}},
		func(in []byte) bool { m, _, err := pppoe.ParseEchoPacket(in); return err == nil && m != 0 }))
	sd := serverDUID6()
	add(pure("dhcpv6.ParseMessage", dhcp6Seeds(sd), func(in []byte) bool { m, err := dhcpv6.ParseMessage(in); return err == nil && len(m.Options) > 0 }))
	add(pure("dhcpv6.ParseOptions", dhcp6OptionSeeds(sd), func(in []byte) bool { o, err := dhcpv6.ParseOptions(in); return err == nil && len(o) > 0 }))
	add(pure("dhcpv6.ParseIANA", ianaSeeds(), func(in []byte) bool { _, err := dhcpv6.ParseIANA(in); return err == nil }))
	add(pure("dhcpv6.ParseIAPD", iapdSeeds(), func(in []byte) bool { _, err := dhcpv6.ParseIAPD(in); return err == nil }))
	add(pure("dhcpv6.ParseIAAddress", iaAddrSeeds(), func(in []byte) bool { _, err := dhcpv6.ParseIAAddress(in); return err == nil }))
	add(pure("dhcpv6.ParseIAPrefix", iaPrefixSeeds(), func(in []byte) bool { _, err := dhcpv6.ParseIAPrefix(in); return err == nil }))
	add(pure("dhcpv6.ParseDUID", duidSeeds(), func(in []byte) bool { d, err := dhcpv6.ParseDUID(in); return err == nil && len(d.Data) > 0 }))
	add(pure("ha.DecodeSyncMessage", haSeeds(), func(in []byte) bool { m, err := ha.DecodeSyncMessage(in); return err == nil && m.Type != "" }))
	add(pure("ztp.parseVendorOptions", vendorSeeds(), func(in []byte) bool { return ztp.VerifC09ParseVendorOptions(in) != "" }))
	add(&target{name: "ztp.extractNexusURL", entry: "ztp.extractNexusURL", seeds: ztpAckSeeds(), light: true,
		call: func(_ any, in []byte) bool { u, ok := ztp.VerifC09ExtractNexusURL(in); return ok && u != "" }})

	// ---- LCP / IPCP / IPV6CP automata in each of the 10 states
	lcpWrap := func(code byte) func([]byte) []byte {
		return func(p []byte) []byte { return fixCP(append([]byte{code, 1, 0, 0}, p...)) }
	}
	var cpWraps []func([]byte) []byte
	for _, code := range []byte{1, 2, 3, 4, 7, 8, 9, 10} {
		cpWraps = append(cpWraps, lcpWrap(code))
	}
	for _, st := range cpStates {
		st := st
		add(&target{name: "pppoe.LCP.ReceivePacket[" + st + "]", entry: "pppoe.LCPStateMachine.ReceivePacket", seeds: lcpSeeds(), wraps: cpWraps,
			call: func(_ any, in []byte) bool {
				m, _ := newLCP(st)
				defer m.Down() // stops the restart timer
				return m.ReceivePacket(in) == nil
			}})
		add(&target{name: "pppoe.IPCP.ReceivePacket[" + st + "]", entry: "pppoe.IPCPStateMachine.ReceivePacket", seeds: ipcpSeeds(), wraps: cpWraps[:4],
			call: func(_ any, in []byte) bool {
				m, _ := newIPCP(st, true)
				defer m.Down()
				return m.ReceivePacket(in) == nil
			}})
		add(&target{name: "pppoe.IPV6CP.ReceivePacket[" + st + "]", entry: "pppoe.IPV6CPStateMachine.ReceivePacket", seeds: ipv6cpSeeds(), wraps: cpWraps[:4],
			call: func(_ any, in []byte) bool {
				m, _ := newIPV6CP(st)
				defer m.Down()
				return m.ReceivePacket(in) == nil
			}})
	}
	for _, st := range []string{"Req-Sent", "Opened"} {
		st := st
		add(&target{name: "pppoe.IPCP.ReceivePacket[" + st + ",no peer address]", entry: "pppoe.IPCPStateMachine.ReceivePacket", seeds: ipcpSeeds(),
			call: func(_ any, in []byte) bool {
				m, _ := newIPCP(st, false)
				defer m.Down()
				return m.ReceivePacket(in) == nil
			}})
	}

	// ---- Authenticator: PAP / CHAP x none / pending / success
	for _, proto := range []uint16{pppoe.ProtocolPAP, pppoe.ProtocolCHAP} {
		for _, st := range []string{"none", "pending", "success"} {
			proto, st := proto, st
			pn, seeds := "PAP", papSeeds()
			if proto == pppoe.ProtocolCHAP {
				pn, seeds = "CHAP", chapSeeds()
			}
			add(&target{name: fmt.Sprintf("pppoe.Authenticator.ReceivePacket[%s,%s]", pn, st), entry: "pppoe.Authenticator.ReceivePacket(" + pn + ")", seeds: seeds,
				wraps: []func([]byte) []byte{func(p []byte) []byte { return fixCP(append([]byte{1, 1, 0, 0}, p...)) }, func(p []byte) []byte { return fixCP(append([]byte{2, 1, 0, 0}, p...)) }},
				call: func(_ any, in []byte) bool {
					cfg := pppoe.DefaultAuthConfig()
					cfg.Protocol = proto
					sc := &sentCounter{}
					a := pppoe.NewAuthenticator(cfg, nil, sc.send, nop)
					if st != "none" {
						a.Start()
					}
					if st == "success" {
						a.ReceivePacket(proto, append([]byte(nil), seeds[0].data...))
						if a.GetState() != pppoe.AuthStateSuccess {
							panic(harnessErr("authenticator pre-state not reached"))
						}
						a.SendReauthChallenge()
					}
					return a.ReceivePacket(proto, in) == nil
				}})
		}
	}

	// ---- keep-alive echo reply and client PADT teardown
	for _, pending := range []bool{false, true} {
		pending := pending
		add(&target{name: fmt.Sprintf("pppoe.KeepAlive.echoReply[pending=%v]", pending), entry: "pppoe.KeepAlive echo reply", seeds: lcpSeeds()[10:13],
			call: func(_ any, in []byte) bool {
				pkt, err := pppoe.ParseLCPPacket(in)
				if err != nil || pkt.Code != pppoe.LCPCodeEchoReply {
					return false
				}
				sess, _ := pppoe.NewSession(1, clientMAC, serverMAC)
				km := pppoe.NewKeepAliveManager(pppoe.DefaultKeepAliveConfig(), nop)
				km.RegisterSession(sess)
				ka := pppoe.NewSessionKeepAlive(sess, nil, pppoe.DefaultKeepAliveConfig(), nop)
				if pending {
					km.VerifC09SetPendingEcho(1, 1)
					ka.VerifC09SetPendingEcho(1)
				}
				magic, _, _ := pppoe.ParseEchoPacket(pkt.Data)
				km.ReceiveEchoReply(1, pkt.Identifier, magic)
				ka.OnEchoReply(pkt.Identifier, pkt.Data)
				return true
			}})
	}
	add(&target{name: "pppoe.Teardown.HandleClientPADT", entry: "pppoe.ParsePADT+HandleClientPADT", seeds: discoverySeeds(),
		call: func(_ any, in []byte) bool {
			sid, _, err := pppoe.ParsePADT(in)
			if err != nil || sid == 0 {
				return false
			}
			sm := pppoe.NewSessionManager()
			sess, _ := sm.CreateSession(clientMAC, serverMAC)
			sess.SetState(pppoe.StateEstablished)
			td := pppoe.NewSessionTeardown(pppoe.DefaultTeardownConfig(), nop)
			td.SetSessionManager(sm)
			if s := sm.GetSession(sid); s != nil {
				td.HandleClientPADT(s, clientMAC, sid)
			}
			return true
		}})

	// ---- pppoe.Server discovery + session handlers with a session in each SessionState
	var sessWraps []func([]byte) []byte
	for _, proto := range []uint16{0xc021, 0xc023, 0x8021, 0x0021} {
		proto := proto
		sessWraps = append(sessWraps, func(p []byte) []byte { return sessionFrame(proto, p) })
	}
	for _, code := range []byte{1, 2, 9} { // LCP/IPCP packets with correct inner length and short data
		code := code
		sessWraps = append(sessWraps, func(p []byte) []byte { return sessionFrame(0xc021, fixCP(append([]byte{code, 1, 0, 0}, p...))) })
	}
	sessWraps = append(sessWraps, func(p []byte) []byte { return sessionFrame(0xc023, fixCP(append([]byte{1, 1, 0, 0}, p...))) })
	discWrap := func(code byte) func([]byte) []byte {
		return func(p []byte) []byte { return fixPPPoE(append([]byte{0x11, code, 0, 1, 0, 0}, p...)) }
	}
	type pre struct {
		name string
		st   pppoe.SessionState
		with bool
	}
	pres := []pre{{"no session", 0, false}}
	for _, st := range sessionStates {
		pres = append(pres, pre{st.String(), st, true})
	}
	for _, p := range pres {
		p := p
		for _, auth := range []string{"pap", "chap"} {
			auth := auth
			if auth == "chap" && p.st != pppoe.StateLCPNegotiation {
				continue // the auth type only matters while LCP is (re)negotiated
			}
			add(&target{name: fmt.Sprintf("pppoe.Server.handleSession[%s,%s]", p.name, auth), entry: "pppoe.Server.handleSession", seeds: sessionSeeds(), wraps: sessWraps,
				call: func(_ any, in []byte) bool {
					srv, _ := newPPPoEServer(auth, p.st, p.with)
					srv.VerifC09Session(clientMAC, in)
					return srv.VerifC09Sent() > 0
				}})
		}
		add(&target{name: fmt.Sprintf("pppoe.Server.handleDiscovery[%s]", p.name), entry: "pppoe.Server.handleDiscovery", seeds: discoverySeeds(),
			wraps: []func([]byte) []byte{discWrap(0x09), discWrap(0x19), discWrap(0xa7)},
			call: func(_ any, in []byte) bool {
				srv, _ := newPPPoEServer("pap", p.st, p.with)
				before := srv.GetSessionCount()
				srv.VerifC09Discovery(clientMAC, in)
				return srv.VerifC09Sent() > 0 || srv.GetSessionCount() != before
			}})
	}

	// ---- the same handlers under the other configuration switches they branch on
	for _, st := range []pppoe.SessionState{pppoe.StateAuthentication, pppoe.StateIPCPNegotiation, pppoe.StateEstablished} {
		st := st
		add(&target{name: fmt.Sprintf("pppoe.Server.handleSession[%s,no pool/no DNS]", st), entry: "pppoe.Server.handleSession", seeds: sessionSeeds(), wraps: sessWraps,
			call: func(_ any, in []byte) bool {
				srv, _ := newPPPoEServerCfg("pap", st, true, true, nil)
				srv.VerifC09Session(clientMAC, in)
				return srv.VerifC09Sent() > 0
			}})
	}
	add(&target{name: "pppoe.Server.handleDiscovery[no session,default names]", entry: "pppoe.Server.handleDiscovery", seeds: discoverySeeds(),
		call: func(_ any, in []byte) bool {
			srv, _ := newPPPoEServerCfg("pap", 0, false, true, nil)
			srv.VerifC09Discovery(clientMAC, in)
			return srv.VerifC09Sent() > 0 || srv.GetSessionCount() > 0
		}})
	for _, accept := range []bool{true, false} {
		accept := accept
		mode := map[bool]string{true: "accept", false: "reject"}[accept]
		newR := func() (any, func()) { f := startFakeRADIUS(accept); return f, f.close }
		// handlePAP and the Authenticator call RADIUS synchronously (no goroutines): in-process is safe
		add(&target{name: "pppoe.Server.handleSession[Authentication,RADIUS " + mode + "]", entry: "pppoe.Server.handleSession", seeds: sessionSeeds()[5:6], wraps: sessWraps[7:], newCtx: newR, light: true,
			call: func(cx any, in []byte) bool {
				srv, _ := newPPPoEServerCfg("pap", pppoe.StateAuthentication, true, false, radiusClientFor(cx.(*fakeRADIUS)))
				srv.VerifC09Session(clientMAC, in)
				return srv.VerifC09Sent() > 0
			}})
		for _, proto := range []uint16{pppoe.ProtocolPAP, pppoe.ProtocolCHAP} {
			proto := proto
			pn, seeds := "PAP", papSeeds()
			if proto == pppoe.ProtocolCHAP {
				pn, seeds = "CHAP", chapSeeds()
			}
			for _, prior := range []int{0, 5} {
				prior := prior
				if accept && prior > 0 {
					continue
				}
				add(&target{name: fmt.Sprintf("pppoe.Authenticator.ReceivePacket[%s,pending,RADIUS %s,%d earlier failures]", pn, mode, prior), entry: "pppoe.Authenticator.ReceivePacket(" + pn + ")", seeds: seeds, newCtx: newR, light: true, quickLite: prior > 0,
					call: func(cx any, in []byte) bool {
						cfg := pppoe.DefaultAuthConfig()
						cfg.Protocol = proto
						sc := &sentCounter{}
						a := pppoe.NewAuthenticator(cfg, radiusClientFor(cx.(*fakeRADIUS)), sc.send, nop)
						a.Start()
						for i := 0; i < prior; i++ { // reach the rate-limited state
							a.ReceivePacket(proto, append([]byte(nil), seeds[0].data...))
						}
						if prior > 0 && a.GetState() != pppoe.AuthStateFailure {
							panic(harnessErr("authenticator failure pre-state not reached"))
						}
						return a.ReceivePacket(proto, in) == nil
					}})
			}
		}
	}
	for _, st := range []string{"Starting", "Req-Sent", "Opened"} {
		st := st
		add(&target{name: "pppoe.IPCP.ReceivePacket[" + st + ",address from pool]", entry: "pppoe.IPCPStateMachine.ReceivePacket", seeds: ipcpSeeds(),
			call: func(_ any, in []byte) bool {
				cfg := pppoe.DefaultIPCPConfig()
				cfg.RestartTimer = time.Hour
				pool, err := pppoe.NewIPPool("10.0.0.0/29", "10.0.0.1")
				if err != nil {
					panic(err)
				}
				cfg.IPPool = pool
				sc := &sentCounter{}
				m := pppoe.NewIPCPStateMachine(cfg, "sess", sc.send, nop)
				script(m, st, ipcpSeeds()[1].data)
				defer m.Down()
				return m.ReceivePacket(in) == nil
			}})
		add(&target{name: "pppoe.LCP.ReceivePacket[" + st + ",CHAP+PFC+ACFC]", entry: "pppoe.LCPStateMachine.ReceivePacket", seeds: lcpSeeds(),
			call: func(_ any, in []byte) bool {
				cfg := pppoe.DefaultLCPConfig()
				cfg.MagicNumber, cfg.RestartTimer = ourMagic, time.Hour
				cfg.AuthProtocol, cfg.PFC, cfg.ACFC = pppoe.ProtocolCHAP, true, true
				sc := &sentCounter{}
				m, err := pppoe.NewLCPStateMachine(cfg, sc.send, nop)
				if err != nil {
					panic(err)
				}
				script(m, st, lcpSeeds()[0].data)
				defer m.Down()
				return m.ReceivePacket(in) == nil
			}})
	}

	// ---- DHCPv4 slow path
	peer4 := &net.UDPAddr{IP: net.IPv4(10, 0, 1, 50), Port: 68}
	for _, loader := range []bool{false, true} {
		for _, ps := range []string{"fresh", "leased", "leased82"} {
			c := dhcpCfg{loader: loader, prestate: ps}
			add(&target{name: fmt.Sprintf("dhcp.Server.handleDHCP[no RADIUS,loader=%v,%s]", loader, ps), entry: "dhcp.Server.handleDHCP", seeds: dhcp4Seeds(), light: true,
				call: func(_ any, in []byte) bool {
					if !dhcp.VerifC09Decodes(in) { // rejected by server4's decoder: the handler is never reached
						return false
					}
					s, fc := newDHCP(c)
					return s.VerifC09Handle(fc, peer4, in) && fc.writes > 0
				}})
		}
	}
	for _, c := range []dhcpCfg{{mgrs: true, prestate: "fresh"}, {mgrs: true, prestate: "leased"}, {mgrs: true, loader: true, prestate: "leased82"}, {nopool: true, prestate: "fresh"}} {
		c := c
		add(&target{name: fmt.Sprintf("dhcp.Server.handleDHCP[no RADIUS,qos+nat=%v,no pool=%v,loader=%v,%s]", c.mgrs, c.nopool, c.loader, c.prestate), entry: "dhcp.Server.handleDHCP", seeds: dhcp4Seeds(), light: true,
			call: func(_ any, in []byte) bool {
				if !dhcp.VerifC09Decodes(in) {
					return false
				}
				s, fc := newDHCP(c)
				return s.VerifC09Handle(fc, peer4, in) && fc.writes > 0
			}})
	}
	for _, mode := range []string{"accept", "reject", "acct-only"} {
		for _, ps := range []string{"fresh", "leased"} {
			if mode == "reject" && ps == "leased" {
				continue
			}
			mode, ps := mode, ps
			add(&target{name: fmt.Sprintf("dhcp.Server.handleDHCP[RADIUS %s,%s]", mode, ps), entry: "dhcp.Server.handleDHCP (RADIUS client configured)", seeds: radiusOrder(dhcp4Seeds()), light: true, quickSeeds: 4, quickSkip: mode == "reject" || (mode == "accept" && ps == "leased"),
				isolate: true, // handleRequest/handleRelease start accounting goroutines
				newCtx: func() (any, func()) {
					f := startFakeRADIUS(mode != "reject")
					return f, f.close
				},
				call: func(cx any, in []byte) bool {
					if !dhcp.VerifC09Decodes(in) {
						return false
					}
					f := cx.(*fakeRADIUS)
					pre := ps
					c := dhcpCfg{radius: mode, prestate: pre, radiusAddr: f.auth.LocalAddr().(*net.UDPAddr)}
					s, fc := newDHCP(c)
					return s.VerifC09Handle(fc, peer4, in) && fc.writes > 0
				}})
		}
	}

	// ---- DHCPv6 message handler with / without a lease, with / without pools
	for _, c := range v6cfgs {
		for _, ps := range []string{"no lease", "lease"} {
			c, ps := c, ps
			add(&target{name: fmt.Sprintf("dhcpv6.Server.handleMessage[%s,%s]", c.name, ps), entry: "dhcpv6.Server.handleMessage", seeds: dhcp6Seeds(sd), quickLite: c.name != "legacy addr+pd" && c.name != "integrated addr+pd", light: c.name != "legacy addr+pd",
				wraps: []func([]byte) []byte{
					func(p []byte) []byte { return append([]byte{1, 0, 0, 1, 0, 1, 0, byte(len(p))}, p...) }, // Solicit, ClientID = p
					func(p []byte) []byte {
						return append(append([]byte{1, 0, 0, 1, 0, 1, 0, 2, 0, 1}, 0, 3, 0, byte(len(p))), p...)
					}, // Solicit, IA_NA = p
					func(p []byte) []byte {
						return append(append([]byte{4, 0, 0, 1, 0, 1, 0, 2, 0, 1}, 0, 3, 0, byte(12+len(p))), append(iaBody(1, 0, 0), p...)...)
					}, // Confirm, IA_NA options = p
				},
				call: func(_ any, in []byte) bool {
					if _, err := dhcpv6.ParseMessage(in); err != nil { // receiveLoop drops it before handleMessage
						return false
					}
					s := newDHCP6(c, ps)
					return s.VerifC09Handle(in, from6)
				}})
		}
	}

	// ---- RADIUS CoA / Disconnect listener (real receive loop over loopback, fenced)
	add(&target{name: "radius.CoAServer.receiveLoop[as sent]", entry: "radius.CoAServer.receiveLoop", seeds: coaSeeds(), newCtx: newCoA, call: coaCall})
	add(&target{name: "radius.CoAServer.receiveLoop[authenticator recomputed]", entry: "radius.CoAServer.receiveLoop", seeds: coaSeeds(), newCtx: newCoA, call: coaCall, prep: coaSign,
		wraps: []func([]byte) []byte{func(p []byte) []byte { return fixCP(append(append([]byte{43, 1, 0, 0}, make([]byte, 16)...), p...)) }}})

	add(&target{name: "radius.CoAServer.receiveLoop[authenticator recomputed,handlers installed]", entry: "radius.CoAServer.receiveLoop", seeds: coaSeeds(), newCtx: newCoAHandlers, call: coaCall, prep: coaSign})

	// ---- HA: SSE data handler on a standby
	for _, ps := range []string{"empty", "synced"} {
		ps := ps
		add(&target{name: "ha.HASyncer.handleSSEData[" + ps + "]", entry: "ha.HASyncer.handleSSEData", seeds: haSeeds(),
			call: func(_ any, in []byte) bool {
				cfg := ha.DefaultSyncConfig()
				cfg.NodeID, cfg.Role, cfg.Partner = "bng-b", ha.RoleStandby, &ha.PartnerInfo{NodeID: "bng-a", Endpoint: "127.0.0.1:1"}
				st := ha.NewInMemorySessionStore()
				s := ha.NewHASyncer(cfg, st, nop)
				if ps == "synced" {
					if err := s.VerifC09HandleSSE(haSeeds()[1].data); err != nil || st.GetSessionCount() == 0 {
						panic(harnessErr("ha pre-state not reached"))
					}
				}
				return s.VerifC09HandleSSE(in) == nil
			}})
	}

	// ---- NAT ALG
	algConn := func() *nat.ALGConnection {
		return &nat.ALGConnection{SubscriberID: 1, PrivateIP: net.IPv4(10, 0, 0, 5), PrivatePort: 40000, PublicIP: net.IPv4(203, 0, 113, 1), PublicPort: 2048,
			DestIP: net.IPv4(198, 51, 100, 7), DestPort: 21, Protocol: 6}
	}
	newALG := func(pool bool) (*nat.ALGHandler, *nat.Manager) {
		m, err := nat.NewManager(nat.ManagerConfig{Interface: "lo"}, nop)
		if err != nil {
			panic(err)
		}
		if pool {
			m.AddPublicIP(net.IPv4(203, 0, 113, 1))
		}
		return nat.NewALGHandler(m, nop), m
	}
	for _, v := range []struct {
		name  string
		typ   uint8
		out   bool
		pool  bool
		seeds []seed
	}{
		{"nat.FTPALG.ProcessOutbound[public pool]", nat.ALGTypeFTP, true, true, ftpOutSeeds()},
		{"nat.FTPALG.ProcessOutbound[empty pool]", nat.ALGTypeFTP, true, false, ftpOutSeeds()},
		{"nat.FTPALG.ProcessInbound", nat.ALGTypeFTP, false, true, ftpInSeeds()},
		{"nat.SIPALG.ProcessOutbound", nat.ALGTypeSIP, true, true, sipOutSeeds()},
		{"nat.SIPALG.ProcessInbound", nat.ALGTypeSIP, false, true, sipInSeeds()},
	} {
		v := v
		add(&target{name: v.name, entry: strings.SplitN(v.name, "[", 2)[0], seeds: v.seeds,
			call: func(_ any, in []byte) bool {
				h, m := newALG(v.pool)
				c := algConn()
				keep := append([]byte(nil), in...)
				out, err := h.ProcessPacket(v.typ, c, in, v.out)
				if err != nil {
					return false
				}
				if !bytes.Equal(out, keep) || m.GetAllocationCount() > 0 {
					return true
				}
				for _, p := range []uint16{5001, 6446, 1286, 65535} {
					if h.GetDynamicMapping(c.PrivateIP, p, 6) != nil {
						return true
					}
				}
				return false
			}})
	}
	addTimerTargets(add)
	addStreamTargets(add)
	return ts
}
