package c09

import (
	"crypto/md5"
	"encoding/binary"
)

// Seed messages: 3-13 valid samples per protocol, built by hand so that the offsets of all
// length/count fields are known to the generator.

type bld struct {
	b   []byte
	l8  []int
	l16 []int
}

func (x *bld) raw(p ...byte) *bld { x.b = append(x.b, p...); return x }
func (x *bld) str(s string) *bld  { x.b = append(x.b, s...); return x }
func (x *bld) u16(v int) *bld     { x.b = append(x.b, byte(v>>8), byte(v)); return x }
func (x *bld) u32(v uint32) *bld  { x.b = binary.BigEndian.AppendUint32(x.b, v); return x }
func (x *bld) len8(v int) *bld    { x.l8 = append(x.l8, len(x.b)); x.b = append(x.b, byte(v)); return x }
func (x *bld) len16(v int) *bld   { x.l16 = append(x.l16, len(x.b)); return x.u16(v) }
func (x *bld) seed(name string) seed {
	return seed{name: name, data: x.b, len8: x.l8, len16: x.l16}
}

// shift moves a seed's annotations after prefixing n bytes.
func prefixed(s seed, pre []byte) seed {
	out := seed{name: s.name, data: append(append([]byte{}, pre...), s.data...)}
	for _, o := range s.len8 {
		out.len8 = append(out.len8, o+len(pre))
	}
	for _, o := range s.len16 {
		out.len16 = append(out.len16, o+len(pre))
	}
	if s.rep[1] > s.rep[0] {
		out.rep = [2]int{s.rep[0] + len(pre), s.rep[1] + len(pre)}
	}
	return out
}

// ---------------------------------------------------------------- PPP control packets (LCP format)

type popt struct {
	typ  byte
	data []byte
}

// cp builds code,id,len16,options... ; options annotated as len8; rep = first option
func cp(name string, code, id byte, opts ...popt) seed {
	x := &bld{}
	x.raw(code, id).len16(0)
	rep := [2]int{}
	for i, o := range opts {
		st := len(x.b)
		x.raw(o.typ).len8(2 + len(o.data)).raw(o.data...)
		if i == 0 {
			rep = [2]int{st, len(x.b)}
		}
	}
	binary.BigEndian.PutUint16(x.b[2:], uint16(len(x.b)))
	s := x.seed(name)
	s.rep = rep
	s.fix = fixCP
	return s
}

func cpData(name string, code, id byte, data []byte) seed {
	x := &bld{}
	x.raw(code, id).len16(4 + len(data)).raw(data...)
	s := x.seed(name)
	s.fix = fixCP
	return s
}

func fixCP(b []byte) []byte {
	if len(b) >= 4 {
		binary.BigEndian.PutUint16(b[2:], uint16(len(b)))
	}
	return b
}

const ourMagic = 0xA1B2C3D4

func be32(v uint32) []byte { return binary.BigEndian.AppendUint32(nil, v) }
func be16(v uint16) []byte { return binary.BigEndian.AppendUint16(nil, v) }

func lcpSeeds() []seed {
	return []seed{
		cp("lcp-confreq", 1, 7, popt{1, be16(1492)}, popt{5, be32(0x11223344)}),
		cp("lcp-confreq-all", 1, 8, popt{1, be16(1400)}, popt{5, be32(0x11223344)}, popt{7, nil}, popt{8, nil}, popt{3, []byte{0xc0, 0x23}}, popt{13, []byte{1, 2, 3}}),
		cp("lcp-confreq-loop", 1, 9, popt{5, be32(ourMagic)}, popt{1, be16(63)}),
		cp("lcp-confack", 2, 1, popt{1, be16(1492)}, popt{5, be32(ourMagic)}, popt{3, []byte{0xc0, 0x23}}),
		cp("lcp-confnak", 3, 1, popt{1, be16(1400)}, popt{3, []byte{0xc2, 0x23, 5}}, popt{5, be32(1)}),
		cp("lcp-confrej", 4, 1, popt{7, nil}, popt{8, nil}, popt{3, []byte{0xc0, 0x23}}),
		cpData("lcp-termreq", 5, 3, []byte("bye")),
		cpData("lcp-termack", 6, 3, nil),
		cpData("lcp-coderej", 7, 4, []byte{1, 1, 0, 4}),
		cpData("lcp-protorej", 8, 5, []byte{0xc0, 0x21, 1, 1, 0, 4}),
		cpData("lcp-echoreq", 9, 6, append(be32(0x11223344), 'p', 'i', 'n', 'g')),
		cpData("lcp-echoreq-min", 9, 6, be32(0x11223344)),
		cpData("lcp-echoreply", 10, 1, append(be32(0x11223344), 'p', 'o', 'n', 'g')),
		cpData("lcp-discard", 11, 1, be32(0x11223344)),
		cpData("lcp-unknown", 12, 1, []byte{1, 2, 3, 4}),
	}
}

func ipcpSeeds() []seed {
	z := []byte{0, 0, 0, 0}
	return []seed{
		cp("ipcp-confreq-zero", 1, 7, popt{3, z}, popt{129, z}, popt{131, z}),
		cp("ipcp-confreq-ip", 1, 8, popt{3, []byte{10, 0, 0, 2}}, popt{129, []byte{8, 8, 8, 8}}),
		cp("ipcp-confreq-other", 1, 9, popt{3, []byte{10, 9, 9, 9}}, popt{2, []byte{0, 0x2d, 15, 0}}, popt{1, []byte{1, 2, 3, 4, 5, 6, 7, 8}}),
		cp("ipcp-confack", 2, 1, popt{3, []byte{10, 0, 0, 1}}),
		cp("ipcp-confnak", 3, 1, popt{3, []byte{10, 0, 0, 9}}),
		cp("ipcp-confrej", 4, 1, popt{3, []byte{10, 0, 0, 1}}),
		cpData("ipcp-termreq", 5, 3, []byte("bye")),
		cpData("ipcp-termack", 6, 3, nil),
	}
}

const ourIfID = 0x0102030405060708

func ipv6cpSeeds() []seed {
	id := func(v uint64) []byte { return binary.BigEndian.AppendUint64(nil, v) }
	return []seed{
		cp("ipv6cp-confreq", 1, 7, popt{1, id(0x1111222233334444)}),
		cp("ipv6cp-confreq-zero", 1, 8, popt{1, id(0)}),
		cp("ipv6cp-confreq-collide", 1, 9, popt{1, id(ourIfID)}, popt{2, []byte{0, 0x4f}}),
		cp("ipv6cp-confack", 2, 1, popt{1, id(ourIfID)}),
		cp("ipv6cp-confnak", 3, 1, popt{1, id(0x9999)}),
		cp("ipv6cp-confrej", 4, 1, popt{1, id(ourIfID)}),
		cpData("ipv6cp-termreq", 5, 3, []byte("bye")),
		cpData("ipv6cp-termack", 6, 3, nil),
	}
}

// option lists only (ParseLCPOptions)
func lcpOptionSeeds() []seed {
	var out []seed
	for _, s := range []seed{lcpSeeds()[1], ipcpSeeds()[0], ipv6cpSeeds()[0]} {
		o := seed{name: s.name + "-opts", data: s.data[4:]}
		for _, p := range s.len8 {
			o.len8 = append(o.len8, p-4)
		}
		o.rep = [2]int{s.rep[0] - 4, s.rep[1] - 4}
		out = append(out, o)
	}
	return out
}

func papSeeds() []seed {
	mk := func(name string, code, id byte, user, pass string) seed {
		x := &bld{}
		x.raw(code, id).len16(0).len8(len(user)).str(user).len8(len(pass)).str(pass)
		binary.BigEndian.PutUint16(x.b[2:], uint16(len(x.b)))
		s := x.seed(name)
		s.fix = fixCP
		return s
	}
	long := make([]byte, 200)
	for i := range long {
		long[i] = 'u'
	}
	return []seed{
		mk("pap-authreq", 1, 1, "alice", "secret"),
		mk("pap-authreq-empty", 1, 2, "", ""),
		mk("pap-authreq-long", 1, 3, string(long), "pw"),
		mk("pap-authack", 2, 1, "ok", ""),
	}
}

func chapSeeds() []seed {
	mk := func(name string, code, id byte, val []byte, uname string) seed {
		x := &bld{}
		x.raw(code, id).len16(0).len8(len(val)).raw(val...).str(uname)
		binary.BigEndian.PutUint16(x.b[2:], uint16(len(x.b)))
		s := x.seed(name)
		s.fix = fixCP
		return s
	}
	v := make([]byte, 16)
	for i := range v {
		v[i] = byte(0xa0 + i)
	}
	return []seed{
		mk("chap-response", 2, 1, v, "alice"),
		mk("chap-response-id2", 2, 2, v, "bob"),
		mk("chap-response-noname", 2, 1, v, ""),
		mk("chap-challenge", 1, 1, v, "peer"),
		cpData("chap-success", 3, 1, []byte("ok")),
	}
}

// ---------------------------------------------------------------- PPPoE

type ptag struct {
	typ uint16
	val []byte
}

func tagList(name string, tags ...ptag) seed {
	x := &bld{}
	rep := [2]int{}
	for i, t := range tags {
		st := len(x.b)
		x.u16(int(t.typ)).len16(len(t.val)).raw(t.val...)
		if i == 0 {
			rep = [2]int{st, len(x.b)}
		}
	}
	s := x.seed(name)
	s.rep = rep
	return s
}

func fixPPPoE(b []byte) []byte {
	if len(b) >= 6 {
		binary.BigEndian.PutUint16(b[4:], uint16(len(b)-6))
	}
	return b
}

func discovery(name string, code byte, sid uint16, tags ...ptag) seed {
	tl := tagList(name, tags...)
	hdr := []byte{0x11, code, byte(sid >> 8), byte(sid), byte(len(tl.data) >> 8), byte(len(tl.data))}
	s := prefixed(tl, hdr)
	s.len16 = append([]int{4}, s.len16...)
	s.fix = fixPPPoE
	return s
}

var cookie16 = []byte{1, 2, 3, 4, 5, 6, 7, 8, 9, 10, 11, 12, 13, 14, 15, 16}

func tagSeeds() []seed {
	return []seed{
		tagList("tags-padi", ptag{0x0101, nil}, ptag{0x0103, []byte{0xde, 0xad, 0xbe, 0xef}}),
		tagList("tags-padr", ptag{0x0101, []byte("internet")}, ptag{0x0104, cookie16}, ptag{0x0103, []byte{1, 2}}),
		tagList("tags-eol", ptag{0x0102, []byte("ac")}, ptag{0x0000, nil}, ptag{0x0105, []byte{0, 0, 0x0d, 0xe9, 1, 2}}),
		tagList("tags-err", ptag{0x0203, []byte("generic error")}, ptag{0x0110, []byte{9, 9, 9, 9, 9, 9, 9, 9, 9, 9, 9, 9}}),
	}
}

func discoverySeeds() []seed {
	return []seed{
		discovery("padi", 0x09, 0, ptag{0x0101, nil}, ptag{0x0103, []byte{0xde, 0xad, 0xbe, 0xef}}),
		discovery("padi-svc", 0x09, 0, ptag{0x0101, []byte("internet")}, ptag{0x0105, []byte{0, 0, 0x0d, 0xe9, 1, 2}}),
		discovery("padi-wrongsvc", 0x09, 0, ptag{0x0101, []byte("other")}),
		discovery("padr", 0x19, 0, ptag{0x0101, []byte("internet")}, ptag{0x0104, cookie16}, ptag{0x0103, []byte{1, 2}}),
		discovery("padr-nocookie", 0x19, 0, ptag{0x0101, nil}),
		discovery("padt", 0xa7, 1, ptag{0x0203, []byte("bye")}),
		discovery("padt-bare", 0xa7, 1),
		discovery("pado-unexpected", 0x07, 0, ptag{0x0102, []byte("ac")}),
	}
}

func fixSession(b []byte) []byte {
	if len(b) >= 6 {
		binary.BigEndian.PutUint16(b[4:], uint16(len(b)-6))
	}
	if len(b) >= 12 {
		binary.BigEndian.PutUint16(b[10:], uint16(len(b)-8))
	}
	return b
}

// session wraps a PPP payload in a PPPoE session header for session id 1.
func sessionFrame(proto uint16, payload []byte) []byte {
	n := 2 + len(payload)
	b := []byte{0x11, 0x00, 0x00, 0x01, byte(n >> 8), byte(n), byte(proto >> 8), byte(proto)}
	return append(b, payload...)
}

func session(proto uint16, inner seed) seed {
	pre := sessionFrame(proto, nil)
	binary.BigEndian.PutUint16(pre[4:], uint16(2+len(inner.data)))
	s := prefixed(inner, pre)
	s.len16 = append([]int{4}, s.len16...)
	s.fix = fixSession
	return s
}

func sessionSeeds() []seed {
	l, i, p := lcpSeeds(), ipcpSeeds(), papSeeds()
	ip := seed{name: "ipv4-packet", data: []byte{0x45, 0, 0, 20, 0, 0, 0, 0, 64, 17, 0, 0, 10, 0, 0, 2, 8, 8, 8, 8}}
	return []seed{
		session(0xc021, l[1]),  // LCP Configure-Request
		session(0xc021, l[3]),  // LCP Configure-Ack
		session(0xc021, l[4]),  // LCP Configure-Nak
		session(0xc021, l[10]), // LCP Echo-Request
		session(0xc021, l[6]),  // LCP Terminate-Request
		session(0xc023, p[0]),  // PAP Authenticate-Request
		session(0x8021, i[0]),  // IPCP Configure-Request 0.0.0.0 + DNS
		session(0x8021, i[3]),  // IPCP Configure-Ack
		session(0x0021, ip),    // IPv4 data
		session(0xc223, chapSeeds()[0]),
	}
}

// ---------------------------------------------------------------- DHCPv4

type dopt struct {
	code byte
	data []byte
}

// dhcp4 builds a BOOTP/DHCP datagram. opt82 (if non-nil) is appended as option 82 with its
// sub-option length bytes annotated.
func dhcp4(name string, op byte, mtype byte, ciaddr, giaddr [4]byte, mac []byte, opts []dopt, sub82 []dopt) seed {
	x := &bld{}
	x.raw(op, 1).len8(len(mac)).raw(0).raw(0x12, 0x34, 0x56, 0x78).u16(0).u16(0x8000)
	x.raw(ciaddr[:]...).raw(0, 0, 0, 0).raw(0, 0, 0, 0).raw(giaddr[:]...)
	ch := make([]byte, 16)
	copy(ch, mac)
	x.raw(ch...).raw(make([]byte, 64)...).raw(make([]byte, 128)...)
	x.raw(0x63, 0x82, 0x53, 0x63)
	x.raw(53).len8(1).raw(mtype)
	rep := [2]int{}
	for i, o := range opts {
		st := len(x.b)
		x.raw(o.code).len8(len(o.data)).raw(o.data...)
		if i == 0 {
			rep = [2]int{st, len(x.b)}
		}
	}
	if sub82 != nil {
		n := 0
		for _, s := range sub82 {
			n += 2 + len(s.data)
		}
		x.raw(82).len8(n)
		for _, s := range sub82 {
			x.raw(s.code).len8(len(s.data)).raw(s.data...)
		}
	}
	x.raw(255)
	s := x.seed(name)
	s.rep = rep
	s.cold = [2]int{44, 236} // sname + file
	return s
}

var seedMAC = []byte{0x02, 0x00, 0x00, 0xaa, 0xbb, 0x01}

func dhcp4Seeds() []seed {
	none := [4]byte{}
	gi := [4]byte{10, 0, 0, 254}
	reqIP := []byte{10, 0, 1, 11}
	srv := []byte{10, 0, 1, 1}
	return []seed{
		dhcp4("discover", 1, 1, none, none, seedMAC, []dopt{{12, []byte("cpe")}, {55, []byte{1, 3, 6, 15}}, {61, append([]byte{1}, seedMAC...)}}, nil),
		dhcp4("request", 1, 3, none, none, seedMAC, []dopt{{50, reqIP}, {54, srv}, {12, []byte("cpe")}}, nil),
		dhcp4("request-relayed-opt82", 1, 3, none, gi, seedMAC, []dopt{{50, reqIP}, {54, srv}}, []dopt{{1, []byte("olt1/1/1:100")}, {2, []byte("nte-42")}, {9, []byte{0, 0, 0x0d, 0xe9}}}),
		dhcp4("discover-relayed-opt82", 1, 1, none, gi, seedMAC, []dopt{{12, []byte("cpe")}}, []dopt{{1, []byte("olt1/1/1:100")}, {2, []byte("nte-42")}}),
		dhcp4("renew-ciaddr", 1, 3, [4]byte{10, 0, 1, 11}, none, seedMAC, []dopt{{12, []byte("cpe")}}, nil),
		dhcp4("release", 1, 7, [4]byte{10, 0, 1, 11}, none, seedMAC, []dopt{{54, srv}}, nil),
		dhcp4("decline", 1, 4, none, none, seedMAC, []dopt{{50, reqIP}, {54, srv}}, nil),
		dhcp4("inform", 1, 8, [4]byte{10, 0, 1, 11}, none, seedMAC, []dopt{{55, []byte{1, 3, 6}}}, nil),
	}
}

// ZTP: DHCP ACKs carrying option 224 / 43
func ztpAckSeeds() []seed {
	none := [4]byte{}
	url := []byte("https://nexus.example:9000")
	v43 := append([]byte{2, 3, 'a', 'b', 'c', 1, byte(len(url))}, url...)
	mk := func(name string, opts []dopt) seed {
		s := dhcp4(name, 2, 5, none, none, seedMAC, opts, nil)
		return s
	}
	return []seed{
		mk("ack-opt224", []dopt{{224, url}, {1, []byte{255, 255, 255, 0}}, {3, []byte{10, 0, 0, 1}}}),
		mk("ack-opt43", []dopt{{43, v43}, {51, []byte{0, 0, 14, 16}}}),
		mk("ack-both", []dopt{{43, v43}, {224, url}}),
		mk("ack-none", []dopt{{6, []byte{8, 8, 8, 8}}}),
	}
}

func vendorSeeds() []seed {
	url := "https://nexus.example:9000"
	a := (&bld{}).raw(1).len8(len(url)).str(url).seed("v43-url")
	a.rep = [2]int{0, len(a.data)}
	b := (&bld{}).raw(2).len8(3).str("abc").raw(1).len8(len(url)).str(url).raw(3).len8(0).seed("v43-mixed")
	b.rep = [2]int{0, 5}
	c := (&bld{}).raw(7).len8(2).raw(1, 2).raw(9).len8(1).raw(0).seed("v43-nourl")
	c.rep = [2]int{0, 4}
	return []seed{a, b, c}
}

// ---------------------------------------------------------------- DHCPv6

type v6opt struct {
	code uint16
	data []byte
	sub  []v6opt // nested options appended after data
}

func v6put(x *bld, o v6opt) {
	x.u16(int(o.code))
	lp := len(x.b)
	x.len16(0)
	st := len(x.b)
	x.raw(o.data...)
	for _, s := range o.sub {
		v6put(x, s)
	}
	binary.BigEndian.PutUint16(x.b[lp:], uint16(len(x.b)-st))
}

func v6msg(name string, typ byte, opts ...v6opt) seed {
	x := &bld{}
	x.raw(typ, 0xab, 0xcd, 0xef)
	rep := [2]int{}
	for i, o := range opts {
		st := len(x.b)
		v6put(x, o)
		if i == len(opts)-1 {
			rep = [2]int{st, len(x.b)}
		}
	}
	s := x.seed(name)
	s.rep = rep
	return s
}

func v6optOnly(name string, o v6opt, strip int) seed {
	x := &bld{}
	v6put(x, o)
	s := x.seed(name)
	// strip the outer code+len so that the payload is what ParseIANA etc. receive
	out := seed{name: name, data: s.data[strip:]}
	for _, p := range s.len16 {
		if p >= strip {
			out.len16 = append(out.len16, p-strip)
		}
	}
	return out
}

var clientDUID = []byte{0, 1, 0, 1, 0x2b, 0x11, 0x22, 0x33, 0x02, 0x00, 0x00, 0xaa, 0xbb, 0x01}

func iaBody(iaid, t1, t2 uint32) []byte {
	return append(append(be32(iaid), be32(t1)...), be32(t2)...)
}

func iaAddrBody(last byte) []byte {
	a := []byte{0x20, 0x01, 0x0d, 0xb8, 0, 0, 0, 0, 0, 0, 0, 0, 0, 0, 0, last}
	return append(append(a, be32(3600)...), be32(7200)...)
}

func iaPrefixBody() []byte {
	b := append(be32(3600), be32(7200)...)
	b = append(b, 60)
	return append(b, []byte{0x20, 0x01, 0x0d, 0xb8, 0xff, 0, 0, 0, 0, 0, 0, 0, 0, 0, 0, 0}...)
}

func dhcp6Seeds(serverDUID []byte) []seed {
	cid := v6opt{code: 1, data: clientDUID}
	sid := v6opt{code: 2, data: serverDUID}
	iana := v6opt{code: 3, data: iaBody(1, 0, 0)}
	ianaAddr := v6opt{code: 3, data: iaBody(1, 0, 0), sub: []v6opt{{code: 5, data: iaAddrBody(1), sub: []v6opt{{code: 13, data: []byte{0, 0, 'o', 'k'}}}}}}
	iapd := v6opt{code: 25, data: iaBody(2, 0, 0)}
	iapdPfx := v6opt{code: 25, data: iaBody(2, 0, 0), sub: []v6opt{{code: 26, data: iaPrefixBody()}}}
	oro := v6opt{code: 6, data: []byte{0, 23, 0, 24}}
	el := v6opt{code: 8, data: []byte{0, 0}}
	rc := v6opt{code: 14}
	return []seed{
		v6msg("solicit", 1, cid, oro, el, iana, iapd),
		v6msg("solicit-rapid", 1, cid, rc, iana, iapd),
		v6msg("request", 3, cid, sid, ianaAddr, iapdPfx),
		v6msg("confirm", 4, cid, ianaAddr),
		v6msg("renew", 5, cid, sid, ianaAddr, iapdPfx),
		v6msg("rebind", 6, cid, ianaAddr),
		v6msg("release", 8, cid, sid, ianaAddr),
		v6msg("decline", 9, cid, sid, ianaAddr),
		v6msg("inforeq", 11, cid, oro),
		v6msg("relay-forw", 12, cid),
	}
}

func dhcp6OptionSeeds(serverDUID []byte) []seed {
	var out []seed
	for _, s := range dhcp6Seeds(serverDUID)[:3] {
		o := seed{name: s.name + "-opts", data: s.data[4:]}
		for _, p := range s.len16 {
			o.len16 = append(o.len16, p-4)
		}
		o.rep = [2]int{s.rep[0] - 4, s.rep[1] - 4}
		out = append(out, o)
	}
	return out
}

func ianaSeeds() []seed {
	return []seed{
		v6optOnly("iana-bare", v6opt{code: 3, data: iaBody(1, 100, 200)}, 4),
		v6optOnly("iana-addr", v6opt{code: 3, data: iaBody(1, 0, 0), sub: []v6opt{{code: 5, data: iaAddrBody(1)}}}, 4),
		v6optOnly("iana-addr-status", v6opt{code: 3, data: iaBody(1, 0, 0), sub: []v6opt{{code: 5, data: iaAddrBody(1), sub: []v6opt{{code: 13, data: []byte{0, 0, 'o', 'k'}}}}, {code: 13, data: []byte{0, 2}}}}, 4),
	}
}

func iapdSeeds() []seed {
	return []seed{
		v6optOnly("iapd-bare", v6opt{code: 25, data: iaBody(2, 100, 200)}, 4),
		v6optOnly("iapd-prefix", v6opt{code: 25, data: iaBody(2, 0, 0), sub: []v6opt{{code: 26, data: iaPrefixBody()}}}, 4),
		v6optOnly("iapd-2prefix", v6opt{code: 25, data: iaBody(2, 0, 0), sub: []v6opt{{code: 26, data: iaPrefixBody()}, {code: 26, data: iaPrefixBody(), sub: []v6opt{{code: 13, data: []byte{0, 6}}}}}}, 4),
	}
}

func iaAddrSeeds() []seed {
	return []seed{
		v6optOnly("iaaddr-bare", v6opt{code: 5, data: iaAddrBody(1)}, 4),
		v6optOnly("iaaddr-status", v6opt{code: 5, data: iaAddrBody(2), sub: []v6opt{{code: 13, data: []byte{0, 0, 'o', 'k'}}}}, 4),
		v6optOnly("iaaddr-2opts", v6opt{code: 5, data: iaAddrBody(3), sub: []v6opt{{code: 13, data: []byte{0, 1}}, {code: 99, data: []byte{1, 2, 3}}}}, 4),
	}
}

func iaPrefixSeeds() []seed {
	return []seed{
		v6optOnly("iaprefix-bare", v6opt{code: 26, data: iaPrefixBody()}, 4),
		v6optOnly("iaprefix-status", v6opt{code: 26, data: iaPrefixBody(), sub: []v6opt{{code: 13, data: []byte{0, 0, 'o', 'k'}}}}, 4),
		v6optOnly("iaprefix-2opts", v6opt{code: 26, data: iaPrefixBody(), sub: []v6opt{{code: 13, data: []byte{0, 6}}, {code: 99, data: nil}}}, 4),
	}
}

func duidSeeds() []seed {
	return []seed{
		{name: "duid-llt", data: clientDUID},
		{name: "duid-ll", data: []byte{0, 3, 0, 1, 2, 0, 0, 0xaa, 0xbb, 1}},
		{name: "duid-en", data: []byte{0, 2, 0, 0, 0x0d, 0xe9, 'x', 'y', 'z'}},
		{name: "duid-uuid", data: append([]byte{0, 4}, cookie16...)},
	}
}

// ---------------------------------------------------------------- RADIUS CoA / Disconnect

const coaSecret = "c09-secret"

type rattr struct {
	typ byte
	val []byte
}

func coaPkt(name string, code, id byte, attrs ...rattr) seed {
	x := &bld{}
	x.raw(code, id).len16(0).raw(make([]byte, 16)...)
	rep := [2]int{}
	for i, a := range attrs {
		st := len(x.b)
		x.raw(a.typ).len8(2 + len(a.val)).raw(a.val...)
		if i == 0 {
			rep = [2]int{st, len(x.b)}
		}
	}
	binary.BigEndian.PutUint16(x.b[2:], uint16(len(x.b)))
	s := x.seed(name)
	s.rep = rep
	s.fix = fixCP
	s.data = coaSign(s.data)
	return s
}

// coaSign writes the request authenticator the server expects for the declared length.
func coaSign(in []byte) []byte {
	if len(in) < 20 {
		return in
	}
	L := int(binary.BigEndian.Uint16(in[2:4]))
	if L > len(in) || L < 20 {
		return in
	}
	out := append([]byte(nil), in...)
	h := md5.New()
	h.Write(out[:4])
	h.Write(make([]byte, 16))
	h.Write(out[20:L])
	h.Write([]byte(coaSecret))
	copy(out[4:20], h.Sum(nil))
	return out
}

func coaSeeds() []seed {
	return []seed{
		coaPkt("coa-request", 43, 1, rattr{1, []byte("alice")}, rattr{44, []byte("sess-0001")}, rattr{8, []byte{10, 0, 1, 11}}, rattr{27, be32(3600)}, rattr{28, be32(600)}, rattr{11, []byte("gold")}),
		coaPkt("disconnect-request", 40, 2, rattr{1, []byte("alice")}, rattr{44, []byte("sess-0001")}, rattr{4, []byte{10, 0, 0, 1}}, rattr{31, []byte("02-00-00-AA-BB-01")}),
		coaPkt("coa-empty", 43, 3),
		coaPkt("coa-shortattrs", 43, 4, rattr{8, []byte{10, 0}}, rattr{27, []byte{1}}, rattr{4, nil}, rattr{26, []byte{0, 0, 0x0d, 0xe9, 1, 4, 'x', 'y'}}),
		coaPkt("access-request-unexpected", 1, 5, rattr{1, []byte("alice")}),
	}
}

// ---------------------------------------------------------------- HA sync (JSON over SSE)

func haSeeds() []seed {
	sess := `{"session_id":"s1","subscriber_id":"sub1","mac":"02:00:00:aa:bb:01","ip":"10.0.1.11","vlan":100,"s_tag":10,"c_tag":20,"session_type":"ipoe","created_at":"2026-01-02T03:04:05Z","last_activity":"2026-01-02T03:04:06Z","state":"active","walled_garden":false,"bytes_in":1,"bytes_out":2}`
	mk := func(name, typ, sessions string) seed {
		head := `{"type":"` + typ + `","sessions":[`
		s := head + sessions + `],"timestamp":"2026-01-02T03:04:05Z","sequence_num":7,"node_id":"bng-a"}`
		sd := seed{name: name, data: []byte(s)}
		if sessions != "" {
			sd.rep = [2]int{len(head), len(head) + len(sess) + 1}
		}
		return sd
	}
	return []seed{
		{name: "ha-heartbeat", data: []byte(`{"type":"heartbeat","timestamp":"2026-01-02T03:04:05Z","node_id":"bng-a"}`)},
		mk("ha-add", "add", sess+`,`+`{"session_id":"s2","mac":"x","ip":"y","vlan":-1,"session_type":"pppoe","state":""}`),
		mk("ha-update", "update", sess+`,`+sess),
		mk("ha-delete", "delete", sess+`,`+`{"session_id":""}`),
		mk("ha-full", "full", sess+`,`+`{"session_id":"s3"}`),
		{name: "ha-fullreq", data: []byte(`{"type":"full_request","sessions":null,"timestamp":"0001-01-01T00:00:00Z","node_id":""}`)},
	}
}

// ---------------------------------------------------------------- NAT ALG payloads

func ftpOutSeeds() []seed {
	return []seed{
		{name: "ftp-port", data: []byte("PORT 10,0,0,5,4,1\r\n")},
		{name: "ftp-eprt", data: []byte("EPRT |1|10.0.0.5|1025|\r\n")},
		{name: "ftp-multi", data: []byte("USER anonymous\r\nport 192,168,1,2,200,10\r\nEPRT |1|10.0.0.6|40000|\r\nQUIT\r\n"), rep: [2]int{16, 43}},
		{name: "ftp-eprt-bad", data: []byte("EPRT |1|not-an-ip|99999999999999999999|\r\nPORT 999,999,999,999,999,999\r\n")},
		{name: "ftp-eprt-v6", data: []byte("EPRT |1|2001:db8::5|1025|\r\nEPRT |2|2001:db8::5|1025|\r\n")},
	}
}

func ftpInSeeds() []seed {
	return []seed{
		{name: "ftp-pasv", data: []byte("227 Entering Passive Mode (203,0,113,9,19,137)\r\n")},
		{name: "ftp-epsv", data: []byte("229 Entering Extended Passive Mode (|||6446|)\r\n")},
		{name: "ftp-multi-in", data: []byte("220 hello\r\n227 ok (1,2,3,4,5,6)\r\n229 ok (|||99999999999999999999|)\r\n"), rep: [2]int{11, 33}},
	}
}

func sipOutSeeds() []seed {
	inv := "INVITE sip:bob@example.com SIP/2.0\r\nVia: SIP/2.0/UDP 10.0.0.5:5060;branch=z9hG4bK776\r\nContact: <sip:alice@10.0.0.5:5060>\r\nFrom: <sip:alice@10.0.0.5>\r\nContent-Type: application/sdp\r\n\r\nv=0\r\no=- 1 1 IN IP4 10.0.0.5\r\nc=IN IP4 10.0.0.5\r\nm=audio 49170 RTP/AVP 0\r\n"
	return []seed{
		{name: "sip-invite", data: []byte(inv), rep: [2]int{36, 86}},
		{name: "sip-register", data: []byte("REGISTER sip:example.com SIP/2.0\nVIA: SIP/2.0/UDP 10.0.0.5\ncontact: *\n\n")},
		{name: "sip-noip", data: []byte("OPTIONS sip:x SIP/2.0\r\nVia: SIP/2.0/UDP 192.0.2.1\r\n\r\n")},
	}
}

func sipInSeeds() []seed {
	ok := "SIP/2.0 200 OK\r\nVia: SIP/2.0/UDP 203.0.113.1:5060;received=203.0.113.1\r\nContact: <sip:bob@203.0.113.1>\r\n\r\nc=IN IP4 203.0.113.1\r\no=- 2 2 IN IP4 203.0.113.1\r\n"
	return []seed{
		{name: "sip-200", data: []byte(ok), rep: [2]int{16, 74}},
		{name: "sip-bye", data: []byte("BYE sip:alice@203.0.113.1 SIP/2.0\r\nvia: SIP/2.0/UDP 203.0.113.1\r\n\r\n")},
		{name: "sip-binary", data: []byte("Via: 203.0.113.1\x00\xff\r\n\r\n\x00")},
	}
}
