package c09

// Deterministic detection of self-deadlocks (a handler that takes a lock it already holds): the packages
// listed in REWRITE are compiled with the cooperative sync shims; every call of a stateful entry point in those
// packages is additionally executed as ONE logical thread under Engine B (sched.RunOnce). If the thread parks and
// no thread is enabled the scheduler reports a deadlock - no clock is involved. The blocked site is the first
// repository frame of the parked thread.
//
// Engine B allows one controlled execution per process, and the shims consult a global "active execution", so
// this pass runs serially and BEFORE the parallel in-process workers start (phase 1 of TestCheck).

import (
	"fmt"
	"os"
	"strings"
	"sync/atomic"
	"time"

	"verif/report"
	"verif/sched"
)

// engineBCall executes one input as a single logical thread. dead != nil: deadlock (no enabled thread).
func engineBCall(t *target, ctx any, in []byte) (nt bool, p *panicInfo, dead *panicInfo, note string) {
	var parked *panicInfo
	sc := &sched.Scenario{Horizon: 1 << 20, Setup: func(x *sched.Exec) {
		x.Thread("handler", func() {
			defer func() {
				r := recover()
				if r == nil {
					return
				}
				if strings.HasSuffix(fmt.Sprintf("%T", r), "sched.abortT") {
					// wind-down of a thread that was still parked at the end of the execution
					parked = capturePanic(r)
					panic(r)
				}
				switch v := r.(type) {
				case *panicInfo:
					p = v
				case harnessErr:
					p = &panicInfo{msg: string(v), site: "harness", harness: true}
				default:
					p = capturePanic(r)
				}
			}()
			nt = t.call(ctx, in)
		})
	}}
	x := sched.RunOnce(sc, nil)
	switch {
	case x.Deadlock:
		site, stack := "blocked thread (no repository frame)", ""
		if parked != nil {
			site, stack = parked.site+" blocked forever [lock already held by the same handler]", parked.stack
		}
		dead = &panicInfo{kind: "hang", site: site, msg: "Engine B: deadlock - the handler thread is parked and no thread is enabled", stack: stack}
	case x.Livelock:
		note = "Engine B horizon reached"
	case x.PanicText != "" && p == nil:
		note = "Engine B: " + x.PanicText
	}
	return
}

// deadlockPass runs the Engine B pass of one target. Returns true if a deadlock was found (recorded).
func (e *engine) deadlockPass(t *target) bool {
	lt := *t
	if !e.thorough {
		lt.quickLite, lt.len8Boundary = true, true // seeds, truncations, length-field boundary values, 2 KiB variants
	}
	jobs := buildJobs(&lt, false) // thorough: the quick tier's full generator
	t0 := time.Now()
	var ctx any
	var cleanup func()
	if t.newCtx != nil {
		ctx, cleanup = t.newCtx()
	}
	var calls, nts int64
	found := false
	for _, j := range jobs {
		j.run(func(b []byte) {
			if found {
				return
			}
			if t.prep != nil {
				b = t.prep(b)
			}
			in := make([]byte, len(b))
			copy(in, b)
			nt, p, dead, note := engineBCall(t, ctx, in)
			calls++
			if nt {
				nts++
			}
			switch {
			case dead != nil:
				e.record("hang", t, b, dead.site, dead.msg, dead.stack)
				found = true
			case p != nil && p.harness:
				e.run.HarnessError(t.name + " (Engine B): " + p.msg)
			case p != nil:
				k := p.kind
				if k == "" {
					k = "panic"
				}
				e.record(k, t, b, p.site, p.msg, p.stack)
			case note != "":
				e.run.HarnessError(t.name + ": " + note)
			}
		})
	}
	if cleanup != nil {
		cleanup()
	}
	e.mu.Lock()
	e.evals += calls
	e.nontriv += nts
	e.mu.Unlock()
	e.run.AddEvals(calls, nts)
	note := ""
	if found {
		note = "deadlock found; the parallel pass of this part is skipped"
		t.skipParallel = true
	}
	e.run.AddPart(report.Part{Name: t.name + " {Engine B, 1 thread}", Engine: "B", Bound: "one logical thread per input; inputs: seeds, truncations, length-field values, 2 KiB variants" + map[bool]string{true: ", position x boundary, short strings", false: ""}[e.thorough],
		Executions: 0, Exhaustive: true, Note: strings.TrimSpace(fmt.Sprintf("calls=%d nontrivial=%d %.1fs %s", calls, nts, time.Since(t0).Seconds(), note))})
	if os.Getenv("C09_VERBOSE") != "" {
		fmt.Printf("  engB %-55s calls=%-7d nontrivial=%-7d %.1fs %s\n", t.name, calls, nts, time.Since(t0).Seconds(), note)
	}
	return found
}

// decideBlocked is called by the wall-clock backstop for a call that has been blocked (not running) for 2 x 10 s
// in an instrumented package: all workers are told to stop, then the input is decided by Engine B.
func (e *engine) decideBlocked(t *target, in []byte) {
	atomic.StoreInt32(&e.aborted, 1)
	time.Sleep(500 * time.Millisecond) // the other workers finish their current (microsecond) calls
	var ctx any
	if t.newCtx != nil {
		ctx, _ = t.newCtx()
	}
	cp := make([]byte, len(in))
	copy(cp, in)
	_, _, dead, _ := engineBCall(t, ctx, cp)
	if dead != nil {
		e.record("hang", t, in, dead.site, dead.msg, dead.stack)
		return
	}
	e.run.HarnessError(fmt.Sprintf("%s: a call stayed blocked for 2 x %v but Engine B finds no deadlock for the same input; not decided (input %x)", t.name, hangCap, in))
}

// ---------------------------------------------------------------- restart timer expiring WHILE a handler runs
//
// Two logical threads per scenario: the packet handler and a clock thread that advances virtual time past the
// restart timer, which makes the timer callback a third thread ("fired, not yet run": Timer.Stop() reports false).
// Engine B enumerates every interleaving up to the preemption bound. The exploration itself runs inside a synctest
// bubble so that a thread blocking on a raw channel operation (not a scheduling point) is still found
// deterministically: every goroutine of the bubble is then durably blocked and the runtime reports the deadlock.
func (e *engine) timerRacePass() {
	bound := 1
	if e.thorough {
		bound = 2
	}
	seeds := map[string][]seed{"LCP": lcpSeeds(), "IPCP": ipcpSeeds(), "IPV6CP": ipv6cpSeeds()}
	for _, proto := range []string{"LCP", "IPCP", "IPV6CP"} {
		for _, st := range timerStates {
			t := &target{name: fmt.Sprintf("pppoe.%s.ReceivePacket[%s] || restart timer expiry {Engine B, 2 threads + timer}", proto, st), entry: "pppoe." + proto + "StateMachine (handler vs restart timer)"}
			if !e.run.WantPart(t.name) {
				continue
			}
			t0 := time.Now()
			var execs int64
			exhaustive := true
			for _, sd := range seeds[proto] {
				pkt := sd.data
				sc := &sched.Scenario{Horizon: 1 << 16, Setup: func(x *sched.Exec) {
					var m cpMachine
					x.Sequential(func() { m = bubbleMachine(proto, st) })
					x.Thread("handler", func() { m.ReceivePacket(append([]byte(nil), pkt...)) })
					x.Thread("clock", func() { x.Advance(3*time.Second + time.Millisecond) })
				}}
				var res *sched.Result
				dead := inBubble(func() { res = (&sched.Explorer{Bound: bound, MaxExec: 20000}).Explore(sc) })
				if dead != nil {
					e.record("hang", t, pkt, dead.site, dead.msg+" [handler || clock || timer threads under Engine B]", dead.stack)
					// the controlled execution can not be unwound: nothing else may run in this process
					atomic.StoreInt32(&e.aborted, 1)
					e.run.AddPart(report.Part{Name: t.name, Engine: "B", Bound: fmt.Sprintf("preemption bound %d", bound), Executions: execs, Exhaustive: false, Note: "deadlock found; run ends here"})
					return
				}
				execs += res.Executions
				exhaustive = exhaustive && res.Exhaustive
				for _, f := range res.Failures {
					for _, v := range f.Viols {
						switch v.Kind {
						case "panic":
							site, msg := siteFromStderr(v.Detail)
							e.record("panic", t, pkt, site, msg, v.Detail)
						case "deadlock":
							e.record("hang", t, pkt, "pppoe."+proto+" automaton lock: no enabled thread", v.Detail, strings.Join(f.Schedule, " "))
						default:
							e.run.HarnessError(t.name + ": " + v.Kind + ": " + v.Detail)
						}
					}
				}
			}
			e.run.AddPart(report.Part{Name: t.name, Engine: "B", Bound: fmt.Sprintf("%d seed packets, preemption bound %d", len(seeds[proto]), bound), Executions: execs, Exhaustive: exhaustive,
				Note: fmt.Sprintf("%.1fs", time.Since(t0).Seconds())})
			if os.Getenv("C09_VERBOSE") != "" {
				fmt.Printf("  race %-70s executions=%-6d %.1fs\n", t.name, execs, time.Since(t0).Seconds())
			}
		}
	}
}
