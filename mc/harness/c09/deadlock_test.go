package c09

// Deterministic detection of self-deadlocks (a handler that takes a lock it already holds): the packages
// listed in REWRITE are compiled with the cooperative sync shims; every call of a stateful entry point in those
// packages is additionally executed as ONE logical thread under Engine B (sched.RunOnce). If the thread parks and
// no thread is enabled the scheduler reports a deadlock - no clock is involved. The blocked site is the first
// repository frame of the parked thread.
//
// Engine B allows one controlled execution per process, and the shims consult a global "active execution", so
// this pass runs serially and BEFORE the parallel in-process workers start (phase 1 of TestCheck).

import (
	"net"

	"fmt"
	"github.com/codelaboratoryltd/bng/pkg/pppoe"
	"os"
	"strings"
	"sync/atomic"
	"time"

	"verif/report"
	"verif/sched"
)

// engineBCall executes one input as a single logical thread. dead != nil: deadlock (no enabled thread).
func engineBCall(t *target, ctx any, in []byte) (nt bool, p *panicInfo, dead *panicInfo, note string) {
	var parked *panicInfo
	sc := &sched.Scenario{Horizon: 1 << 20, Setup: func(x *sched.Exec) {
		x.Thread("handler", func() {
			defer func() {
				r := recover()
				if r == nil {
					return
				}
				if strings.HasSuffix(fmt.Sprintf("%T", r), "sched.abortT") {
					// wind-down of a thread that was still parked at the end of the execution
					parked = capturePanic(r)
					panic(r)
				}
				switch v := r.(type) {
				case *panicInfo:
					p = v
				case harnessErr:
					p = &panicInfo{msg: string(v), site: "harness", harness: true}
				default:
					p = capturePanic(r)
				}
			}()
			nt = t.call(ctx, in)
		})
	}}
	x := sched.RunOnce(sc, nil)
	switch {
	case x.Deadlock:
		site, stack := "blocked thread (no repository frame)", ""
		if parked != nil {
			site, stack = parked.site+" blocked forever [lock already held by the same handler]", parked.stack
		}
		dead = &panicInfo{kind: "hang", site: site, msg: "Engine B: deadlock - the handler thread is parked and no thread is enabled", stack: stack}
	case x.Livelock:
		note = "Engine B horizon reached"
	case x.PanicText != "" && p == nil:
		note = "Engine B: " + x.PanicText
	}
	return
}

// deadlockPass runs the Engine B pass of one target. Returns true if a deadlock was found (recorded).
func (e *engine) deadlockPass(t *target) bool {
	lt := *t
	if !e.thorough {
		lt.quickLite, lt.len8Boundary = true, true // seeds, truncations, length-field boundary values, 2 KiB variants
	}
	jobs := buildJobs(&lt, false) // thorough: the quick tier's full generator
	t0 := time.Now()
	var ctx any
	var cleanup func()
	if t.newCtx != nil {
		ctx, cleanup = t.newCtx()
	}
	var calls, nts int64
	found := false
	for _, j := range jobs {
		j.run(func(b []byte) {
			if found {
				return
			}
			if t.prep != nil {
				b = t.prep(b)
			}
			in := make([]byte, len(b))
			copy(in, b)
			nt, p, dead, note := engineBCall(t, ctx, in)
			calls++
			if nt {
				nts++
			}
			switch {
			case dead != nil:
				e.record("hang", t, b, dead.site, dead.msg, dead.stack)
				found = true
			case p != nil && p.harness:
				e.run.HarnessError(t.name + " (Engine B): " + p.msg)
			case p != nil:
				k := p.kind
				if k == "" {
					k = "panic"
				}
				e.record(k, t, b, p.site, p.msg, p.stack)
			case note != "":
				e.run.HarnessError(t.name + ": " + note)
			}
		})
	}
	if cleanup != nil {
		cleanup()
	}
	e.mu.Lock()
	e.evals += calls
	e.nontriv += nts
	e.mu.Unlock()
	e.run.AddEvals(calls, nts)
	note := ""
	if found {
		note = "deadlock found; the parallel pass of this part is skipped"
		t.skipParallel = true
	}
	e.run.AddPart(report.Part{Name: t.name + " {Engine B, 1 thread}", Engine: "B", Bound: "one logical thread per input; inputs: seeds, truncations, length-field values, 2 KiB variants" + map[bool]string{true: ", position x boundary, short strings", false: ""}[e.thorough],
		Executions: 0, Exhaustive: true, Note: strings.TrimSpace(fmt.Sprintf("calls=%d nontrivial=%d %.1fs %s", calls, nts, time.Since(t0).Seconds(), note))})
	if os.Getenv("C09_VERBOSE") != "" {
		fmt.Printf("  engB %-55s calls=%-7d nontrivial=%-7d %.1fs %s\n", t.name, calls, nts, time.Since(t0).Seconds(), note)
	}
	return found
}

// decideBlocked is called by the wall-clock backstop for a call that has been blocked (not running) for 2 x 10 s
// in an instrumented package: all workers are told to stop, then the input is decided by Engine B.
func (e *engine) decideBlocked(t *target, in []byte) {
	atomic.StoreInt32(&e.aborted, 1)
	time.Sleep(500 * time.Millisecond) // the other workers finish their current (microsecond) calls
	var ctx any
	if t.newCtx != nil {
		ctx, _ = t.newCtx()
	}
	cp := make([]byte, len(in))
	copy(cp, in)
	_, _, dead, _ := engineBCall(t, ctx, cp)
	if dead != nil {
		e.record("hang", t, in, dead.site, dead.msg, dead.stack)
		return
	}
	e.run.HarnessError(fmt.Sprintf("%s: a call stayed blocked for 2 x %v but Engine B finds no deadlock for the same input; not decided (input %x)", t.name, hangCap, in))
}

// ---------------------------------------------------------------- packet handler || periodic actor
//
// Every scenario has a packet-handler thread and a second thread that performs ONE tick of a periodic actor that
// runs against the same object while packets arrive (restart timer via a clock thread, session keep-alive check,
// keep-alive manager sweep, PPPoE session cleanup sweep, DHCP lease cleanup). Engine B enumerates every interleaving
// up to the preemption bound; "no enabled thread while threads remain" = deadlock. The exploration runs inside a
// synctest bubble so that a thread blocked on a raw channel operation (not a scheduling point) is still found
// deterministically by the runtime.

type raceFamily struct {
	name  string // "<handler>[<pre-state>] || <actor>"
	entry string
	seeds []seed
	// build constructs the pre-state (called inside x.Sequential) and returns the two thread bodies; extra (may be
	// nil) registers further threads (e.g. a clock)
	build func(x *sched.Exec, pkt []byte) (handler func(), actor func())
	actor string // name of the second thread
}

func (e *engine) racePass(fams []raceFamily) {
	bound := 1
	if e.thorough {
		bound = 2
	}
	for _, f := range fams {
		f := f
		t := &target{name: f.name + " {Engine B, 2 threads}", entry: f.entry}
		if !e.run.WantPart(t.name) {
			continue
		}
		if atomic.LoadInt32(&e.aborted) != 0 {
			return
		}
		t0 := time.Now()
		var execs int64
		exhaustive := true
		for _, sd := range f.seeds {
			pkt := sd.data
			parked := map[string]*panicInfo{}
			wrap := func(name string, body func()) func() {
				return func() {
					defer func() {
						if r := recover(); r != nil {
							if strings.HasSuffix(fmt.Sprintf("%T", r), "sched.abortT") {
								parked[name] = capturePanic(r)
							}
							panic(r)
						}
					}()
					body()
				}
			}
			sc := &sched.Scenario{Horizon: 1 << 16, Setup: func(x *sched.Exec) {
				for k := range parked {
					delete(parked, k)
				}
				var h, a func()
				x.Sequential(func() { h, a = f.build(x, append([]byte(nil), pkt...)) })
				x.Thread("handler", wrap("handler", h))
				x.Thread(f.actor, wrap(f.actor, a))
			}}
			var res *sched.Result
			dead := inBubble(func() { res = (&sched.Explorer{Bound: bound, MaxExec: 50000}).Explore(sc) })
			if dead != nil {
				e.record("hang", t, pkt, dead.site, dead.msg+" [handler || "+f.actor+" threads under Engine B]", dead.stack)
				// the controlled execution can not be unwound: nothing else may run in this process
				atomic.StoreInt32(&e.aborted, 1)
				e.run.AddPart(report.Part{Name: t.name, Engine: "B", Bound: fmt.Sprintf("preemption bound %d", bound), Executions: execs, Exhaustive: false, Note: "deadlock found; run ends here"})
				return
			}
			execs += res.Executions
			exhaustive = exhaustive && res.Exhaustive
			for _, fl := range res.Failures {
				for _, v := range fl.Viols {
					switch v.Kind {
					case "panic":
						site, msg := siteFromStderr(v.Detail)
						e.record("panic", t, pkt, site, msg, v.Detail)
					case "deadlock":
						site, stack := "no enabled thread", strings.Join(fl.Schedule, " ")
						var ps []string
						for _, n := range []string{"handler", f.actor} {
							if p := parked[n]; p != nil {
								ps = append(ps, n+" parked at "+p.site)
								stack += "\n--- " + n + "\n" + p.stack
							}
						}
						if len(ps) > 0 {
							site = strings.Join(ps, " / ")
						}
						e.record("hang", t, pkt, site, "Engine B: deadlock - no enabled thread while threads remain unfinished; schedule "+strings.Join(fl.Schedule, ","), stack)
					default:
						e.run.HarnessError(t.name + ": " + v.Kind + ": " + v.Detail)
					}
				}
			}
		}
		e.run.AddPart(report.Part{Name: t.name, Engine: "B", Bound: fmt.Sprintf("%d seed packets, every interleaving up to preemption bound %d", len(f.seeds), bound), Executions: execs, Exhaustive: exhaustive,
			Note: fmt.Sprintf("%.1fs", time.Since(t0).Seconds())})
		if os.Getenv("C09_VERBOSE") != "" {
			fmt.Printf("  race %-80s executions=%-6d %.1fs\n", t.name, execs, time.Since(t0).Seconds())
		}
	}
}

func raceFamilies() []raceFamily {
	var fs []raceFamily
	// ---- restart timer of the three automata: clock thread advances past the timer, the fired timer is a third thread
	cpSeeds := map[string][]seed{"LCP": lcpSeeds(), "IPCP": ipcpSeeds(), "IPV6CP": ipv6cpSeeds()}
	for _, proto := range []string{"LCP", "IPCP", "IPV6CP"} {
		for _, st := range timerStates {
			proto, st := proto, st
			fs = append(fs, raceFamily{name: fmt.Sprintf("pppoe.%s.ReceivePacket[%s] || restart timer expiry", proto, st), entry: "pppoe." + proto + "StateMachine (handler vs restart timer)", seeds: cpSeeds[proto], actor: "clock",
				build: func(x *sched.Exec, pkt []byte) (func(), func()) {
					m := bubbleMachine(proto, st)
					return func() { m.ReceivePacket(pkt) }, func() { x.Advance(3*time.Second + time.Millisecond) }
				}})
		}
	}
	// ---- session keep-alive ticker (SessionKeepAlive.check) against the LCP automaton in each state
	kaCfg := pppoe.KeepAliveConfig{Enabled: true, Interval: 30 * time.Second, Timeout: 5 * time.Second, MaxFailures: 3, IdleThreshold: 0}
	for _, st := range cpStates {
		for _, pending := range []bool{false, true} {
			if pending && st != "Opened" {
				continue
			}
			st, pending := st, pending
			fs = append(fs, raceFamily{name: fmt.Sprintf("pppoe.LCP.ReceivePacket[%s,keep-alive attached,echo pending=%v] || SessionKeepAlive tick", st, pending), entry: "pppoe.LCPStateMachine (handler vs session keep-alive)", seeds: lcpSeeds(), actor: "keepalive",
				build: func(x *sched.Exec, pkt []byte) (func(), func()) {
					m := bubbleMachine("LCP", st).(*pppoe.LCPStateMachine)
					sess, _ := pppoe.NewSession(1, clientMAC, serverMAC)
					ka := pppoe.NewSessionKeepAlive(sess, m, kaCfg, nop)
					if pending {
						ka.VerifC09SetPendingEcho(1)
					}
					return func() { m.ReceivePacket(pkt) }, func() { ka.VerifC09Check() }
				}})
		}
	}
	// ---- keep-alive manager sweep against the echo-reply path
	for _, pending := range []bool{false, true} {
		pending := pending
		fs = append(fs, raceFamily{name: fmt.Sprintf("pppoe.KeepAlive.echoReply[pending=%v] || KeepAliveManager sweep", pending), entry: "pppoe.KeepAliveManager (echo reply vs sweep)", seeds: lcpSeeds()[10:13], actor: "sweep",
			build: func(x *sched.Exec, pkt []byte) (func(), func()) {
				sess, _ := pppoe.NewSession(1, clientMAC, serverMAC)
				km := pppoe.NewKeepAliveManager(kaCfg, nop)
				km.SetSendEcho(func(*pppoe.Session) uint8 { return 1 })
				km.RegisterSession(sess)
				if pending {
					km.VerifC09SetPendingEcho(1, 1)
				}
				return func() {
					p, err := pppoe.ParseLCPPacket(pkt)
					if err != nil {
						return
					}
					magic, _, _ := pppoe.ParseEchoPacket(p.Data)
					km.UpdateActivity(1)
					km.ReceiveEchoReply(1, p.Identifier, magic)
					km.GetSessionHealth(1)
				}, func() { km.VerifC09CheckAll() }
			}})
	}
	// ---- PPPoE server: idle/cleanup sweep removing the session while one of its frames is handled
	for _, st := range sessionStates {
		st := st
		fs = append(fs, raceFamily{name: fmt.Sprintf("pppoe.Server.handleSession[%s] || session cleanup sweep", st), entry: "pppoe.Server (handleSession vs cleanup sweep)", seeds: sessionSeeds(), actor: "sweep",
			build: func(x *sched.Exec, pkt []byte) (func(), func()) {
				srv, _ := newPPPoEServer("pap", st, true)
				return func() { srv.VerifC09Session(clientMAC, pkt) }, func() { srv.VerifC09CleanupTick(-time.Second) }
			}})
		fs = append(fs, raceFamily{name: fmt.Sprintf("pppoe.Server.handleDiscovery[%s] || session cleanup sweep", st), entry: "pppoe.Server (handleDiscovery vs cleanup sweep)", seeds: discoverySeeds(), actor: "sweep",
			build: func(x *sched.Exec, pkt []byte) (func(), func()) {
				srv, _ := newPPPoEServer("pap", st, true)
				return func() { srv.VerifC09Discovery(clientMAC, pkt) }, func() { srv.VerifC09CleanupTick(-time.Second) }
			}})
	}
	// ---- DHCPv4: lease cleanup tick expiring the client's lease while its packet is handled
	peer4 := &net.UDPAddr{IP: net.IPv4(10, 0, 1, 50), Port: 68}
	for _, c := range []dhcpCfg{{expired: true, prestate: "leased"}, {expired: true, prestate: "leased82", loader: true}, {expired: true, prestate: "leased", mgrs: true}} {
		c := c
		fs = append(fs, raceFamily{name: fmt.Sprintf("dhcp.Server.handleDHCP[%s,lease expired,loader=%v,qos+nat=%v] || lease cleanup tick", c.prestate, c.loader, c.mgrs), entry: "dhcp.Server (handleDHCP vs lease cleanup)", seeds: dhcp4Seeds(), actor: "cleanup",
			build: func(x *sched.Exec, pkt []byte) (func(), func()) {
				s, fc := newDHCP(c)
				return func() { s.VerifC09Handle(fc, peer4, pkt) }, func() { s.VerifC09CleanupExpired() }
			}})
	}
	return fs
}
