// Command kload loads BPF objects through the running kernel's verifier and
// reports, per object, whether every program was accepted.
package main

import (
	"fmt"
	"os"

	"github.com/cilium/ebpf"
)

func main() {
	rc := 0
	for _, path := range os.Args[1:] {
		spec, err := ebpf.LoadCollectionSpec(path)
		if err != nil {
			fmt.Printf("%s: SPEC-ERROR %v\n", path, err)
			rc = 1
			continue
		}
		for _, m := range spec.Maps {
			if m.MaxEntries > 4096 {
				m.MaxEntries = 4096
			}
		}
		c, err := ebpf.NewCollection(spec)
		if err != nil {
			s := err.Error()
			if len(s) > 2000 {
				s = s[len(s)-2000:]
			}
			fmt.Printf("%s: VERIFIER-REJECT %s\n", path, s)
			rc = 1
			continue
		}
		fmt.Printf("%s: ACCEPTED programs=%d maps=%d\n", path, len(c.Programs), len(c.Maps))
		c.Close()
	}
	os.Exit(rc)
}
