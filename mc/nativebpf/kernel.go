package nativebpf

import (
	"errors"
	"fmt"
	"os"
	"os/exec"
	"path/filepath"
	"syscall"

	"github.com/cilium/ebpf"
)

// Kernel is one program source compiled to real BPF bytecode and loaded through
// the running kernel's verifier; programs are executed with BPF_PROG_TEST_RUN.
type Kernel struct {
	Coll *ebpf.Collection
}

// KernelBuild compiles bpf/*.c of the current tree to BPF objects (clang -target bpf).
func KernelBuild(dir string) error {
	cmd := exec.Command(filepath.Join(Root(), "native", "kbuild.sh"), dir, Repo())
	out, err := cmd.CombinedOutput()
	if err != nil {
		return fmt.Errorf("kbuild failed: %v\n%s", err, out)
	}
	return nil
}

// ErrNoBPF: the sandbox does not allow loading BPF programs (not a verdict).
var ErrNoBPF = errors.New("kernel refuses bpf() in this environment")

// KernelLoad loads dir/<prog>.o. A verifier rejection is returned as *ebpf.VerifierError.
func KernelLoad(dir, prog string, maxEntries uint32) (*Kernel, error) {
	spec, err := ebpf.LoadCollectionSpec(filepath.Join(dir, prog+".o"))
	if err != nil {
		return nil, err
	}
	for _, m := range spec.Maps {
		if m.MaxEntries > maxEntries {
			m.MaxEntries = maxEntries
		}
	}
	c, err := ebpf.NewCollection(spec)
	if err != nil {
		var ve *ebpf.VerifierError
		if errors.As(err, &ve) {
			return nil, err
		}
		if errors.Is(err, syscall.EPERM) || errors.Is(err, syscall.ENOSYS) || errors.Is(err, os.ErrPermission) {
			return nil, fmt.Errorf("%w: %v", ErrNoBPF, err)
		}
		return nil, err
	}
	return &Kernel{Coll: c}, nil
}

func (k *Kernel) Close() { k.Coll.Close() }

// Run executes the named program on frame in the kernel.
func (k *Kernel) Run(prog string, frame []byte) (uint32, []byte, error) {
	p := k.Coll.Programs[prog]
	if p == nil {
		return 0, nil, fmt.Errorf("no program %s", prog)
	}
	return p.Test(frame)
}

// ClearMap deletes every entry of a hash-like kernel map.
func (k *Kernel) ClearMap(name string) error {
	m := k.Coll.Maps[name]
	if m == nil {
		return fmt.Errorf("no map %s", name)
	}
	switch m.Type() {
	case ebpf.Hash, ebpf.LRUHash, ebpf.LPMTrie, ebpf.PerCPUHash:
		var keys [][]byte
		it := m.Iterate()
		key := make([]byte, m.KeySize())
		var val []byte
		if m.Type() == ebpf.PerCPUHash {
			return nil
		}
		val = make([]byte, m.ValueSize())
		for it.Next(&key, &val) {
			keys = append(keys, append([]byte{}, key...))
		}
		for _, kk := range keys {
			m.Delete(kk)
		}
	case ebpf.Array:
		zero := make([]byte, m.ValueSize())
		for i := uint32(0); i < m.MaxEntries(); i++ {
			m.Put(i, zero)
		}
	}
	return nil
}

// CopyFrom replaces the contents of every copyable kernel map with the shim driver's contents.
func (k *Kernel) CopyFrom(d *Driver) error {
	for _, mi := range d.Maps {
		m := k.Coll.Maps[mi.Name]
		if m == nil {
			return fmt.Errorf("kernel object has no map %s", mi.Name)
		}
		switch m.Type() {
		case ebpf.PerCPUArray, ebpf.PerCPUHash, ebpf.PerfEventArray, ebpf.RingBuf:
			continue
		}
		if m.KeySize() != mi.KeySize || m.ValueSize() != mi.ValSize {
			return fmt.Errorf("map %s: kernel sizes %d/%d, native C sizes %d/%d", mi.Name, m.KeySize(), m.ValueSize(), mi.KeySize, mi.ValSize)
		}
		if err := k.ClearMap(mi.Name); err != nil {
			return err
		}
		kvs, err := d.Dump(mi.Name)
		if err != nil {
			return err
		}
		for _, kv := range kvs {
			if err := m.Put(kv.Key, kv.Val); err != nil {
				return fmt.Errorf("map %s put: %w", mi.Name, err)
			}
		}
	}
	return nil
}
