// Package nativebpf is the Go side of Engine C: it builds the natively compiled
// kernel programs (bpf/*.c of the repository's CURRENT tree + /verif/native shim)
// and talks to one driver process per program source over a binary pipe protocol.
package nativebpf

import (
	"bufio"
	"encoding/binary"
	"fmt"
	"io"
	"os"
	"os/exec"
	"path/filepath"
)

func Repo() string {
	if r := os.Getenv("VERIF_REPO"); r != "" {
		return r
	}
	return "/repo"
}

func Root() string {
	if r := os.Getenv("VERIF_ROOT"); r != "" {
		return r
	}
	return "/verif"
}

// Build compiles all drivers into a fresh directory under /verif/.work and returns it.
func Build() (string, error) {
	dir, err := os.MkdirTemp(filepath.Join(Root(), ".work"), "native-")
	if err != nil {
		if err2 := os.MkdirAll(filepath.Join(Root(), ".work"), 0o755); err2 != nil {
			return "", err
		}
		dir, err = os.MkdirTemp(filepath.Join(Root(), ".work"), "native-")
		if err != nil {
			return "", err
		}
	}
	cmd := exec.Command(filepath.Join(Root(), "native", "build.sh"), dir, Repo())
	out, err := cmd.CombinedOutput()
	if err != nil {
		return dir, fmt.Errorf("native build failed: %v\n%s", err, out)
	}
	return dir, nil
}

// BuildOne compiles only drv_<prog> (no sanitizer variant) into dir.
func BuildOne(dir, prog string) error {
	cmd := exec.Command(filepath.Join(Root(), "native", "build.sh"), dir, Repo())
	cmd.Env = append(os.Environ(), "ONLY="+prog, "NOASAN=1")
	out, err := cmd.CombinedOutput()
	if err != nil {
		return fmt.Errorf("native build failed: %v\n%s", err, out)
	}
	return nil
}

type MapInfo struct {
	Name                        string
	Type, KeySize, ValSize, Max uint32
}
type ProgInfo struct {
	Name string
	Kind uint32 // 0 xdp, 1 tc
}

type Driver struct {
	cmd   *exec.Cmd
	in    io.WriteCloser
	w     *bufio.Writer
	r     *bufio.Reader
	Maps  []MapInfo
	Progs []ProgInfo
	Dead  error
}

// Start launches drv_<prog>[_asan] from dir.
func Start(dir, prog string, asan bool) (*Driver, error) {
	bin := filepath.Join(dir, "drv_"+prog)
	if asan {
		bin += "_asan"
	}
	cmd := exec.Command(bin)
	cmd.Env = append(os.Environ(), "ASAN_OPTIONS=halt_on_error=0:handle_segv=0:handle_sigbus=0:detect_leaks=0:print_summary=0")
	cmd.Stderr = nil
	in, err := cmd.StdinPipe()
	if err != nil {
		return nil, err
	}
	out, err := cmd.StdoutPipe()
	if err != nil {
		return nil, err
	}
	if err := cmd.Start(); err != nil {
		return nil, err
	}
	d := &Driver{cmd: cmd, in: in, w: bufio.NewWriter(in), r: bufio.NewReaderSize(out, 1<<16)}
	if err := d.info(); err != nil {
		return nil, err
	}
	return d, nil
}

func (d *Driver) Close() {
	d.w.WriteByte('Q')
	d.w.Flush()
	d.in.Close()
	d.cmd.Wait()
}

func (d *Driver) fail(err error) error {
	if d.Dead == nil {
		d.Dead = err
	}
	return err
}

func (d *Driver) u32() (uint32, error) {
	var b [4]byte
	if _, err := io.ReadFull(d.r, b[:]); err != nil {
		return 0, d.fail(fmt.Errorf("driver died: %w", err))
	}
	return binary.LittleEndian.Uint32(b[:]), nil
}
func (d *Driver) u64() (uint64, error) {
	var b [8]byte
	if _, err := io.ReadFull(d.r, b[:]); err != nil {
		return 0, d.fail(fmt.Errorf("driver died: %w", err))
	}
	return binary.LittleEndian.Uint64(b[:]), nil
}
func (d *Driver) str() (string, error) {
	l, err := d.r.ReadByte()
	if err != nil {
		return "", d.fail(err)
	}
	b := make([]byte, l)
	if _, err := io.ReadFull(d.r, b); err != nil {
		return "", d.fail(err)
	}
	return string(b), nil
}
func (d *Driver) put32(v uint32) {
	var b [4]byte
	binary.LittleEndian.PutUint32(b[:], v)
	d.w.Write(b[:])
}
func (d *Driver) put64(v uint64) {
	var b [8]byte
	binary.LittleEndian.PutUint64(b[:], v)
	d.w.Write(b[:])
}
func (d *Driver) putName(n string) { d.w.WriteByte(byte(len(n))); d.w.WriteString(n) }

func (d *Driver) info() error {
	d.w.WriteByte('I')
	d.w.Flush()
	n, err := d.u32()
	if err != nil {
		return err
	}
	for i := uint32(0); i < n; i++ {
		var m MapInfo
		m.Name, _ = d.str()
		m.Type, _ = d.u32()
		m.KeySize, _ = d.u32()
		m.ValSize, _ = d.u32()
		m.Max, err = d.u32()
		if err != nil {
			return err
		}
		d.Maps = append(d.Maps, m)
	}
	n, err = d.u32()
	if err != nil {
		return err
	}
	for i := uint32(0); i < n; i++ {
		var p ProgInfo
		p.Name, _ = d.str()
		p.Kind, err = d.u32()
		if err != nil {
			return err
		}
		d.Progs = append(d.Progs, p)
	}
	return nil
}

func (d *Driver) Map(name string) *MapInfo {
	for i := range d.Maps {
		if d.Maps[i].Name == name {
			return &d.Maps[i]
		}
	}
	return nil
}

func (d *Driver) ProgIndex(name string) int {
	for i, p := range d.Progs {
		if p.Name == name {
			return i
		}
	}
	return -1
}

func (d *Driver) Clear() error {
	d.w.WriteByte('C')
	d.w.Flush()
	_, err := d.u32()
	return err
}

func (d *Driver) SetTime(ns uint64) error {
	d.w.WriteByte('T')
	d.put64(ns)
	d.w.Flush()
	_, err := d.u32()
	return err
}

// Update writes key/value bytes (sizes must equal the C-declared sizes; rc -22 otherwise).
func (d *Driver) Update(name string, key, val []byte, flags uint64) (int32, error) {
	d.w.WriteByte('U')
	d.putName(name)
	d.put32(uint32(len(key)))
	d.w.Write(key)
	d.put32(uint32(len(val)))
	d.w.Write(val)
	d.put64(flags)
	d.w.Flush()
	rc, err := d.u32()
	return int32(rc), err
}

func (d *Driver) Delete(name string, key []byte) (int32, error) {
	d.w.WriteByte('D')
	d.putName(name)
	d.put32(uint32(len(key)))
	d.w.Write(key)
	d.w.Flush()
	rc, err := d.u32()
	return int32(rc), err
}

func (d *Driver) Lookup(name string, key []byte) ([]byte, bool, error) {
	d.w.WriteByte('L')
	d.putName(name)
	d.put32(uint32(len(key)))
	d.w.Write(key)
	d.w.Flush()
	f, err := d.u32()
	if err != nil || f == 0 {
		return nil, false, err
	}
	l, err := d.u32()
	if err != nil {
		return nil, false, err
	}
	b := make([]byte, l)
	if _, err := io.ReadFull(d.r, b); err != nil {
		return nil, false, d.fail(err)
	}
	return b, true, nil
}

type KV struct{ Key, Val []byte }

func (d *Driver) Dump(name string) ([]KV, error) {
	m := d.Map(name)
	if m == nil {
		return nil, fmt.Errorf("no map %s", name)
	}
	d.w.WriteByte('G')
	d.putName(name)
	d.w.Flush()
	n, err := d.u32()
	if err != nil {
		return nil, err
	}
	out := make([]KV, n)
	for i := range out {
		out[i].Key = make([]byte, m.KeySize)
		out[i].Val = make([]byte, m.ValSize)
		if _, err := io.ReadFull(d.r, out[i].Key); err != nil {
			return nil, d.fail(err)
		}
		if _, err := io.ReadFull(d.r, out[i].Val); err != nil {
			return nil, d.fail(err)
		}
	}
	return out, nil
}

type Result struct {
	Verdict   int32
	Fault     uint32 // 0 none; signal number; 1000 sanitizer report
	FaultAddr uint64
	Priority  uint32
	Events    uint32
	Frame     []byte
}

// Run executes program pi on frame. placement 0: frame end flush against an
// inaccessible page; 1: frame start flush against one.
func (d *Driver) Run(pi int, placement int, frame []byte) (Result, error) {
	var r Result
	d.w.WriteByte('R')
	d.w.WriteByte(byte(pi))
	d.w.WriteByte(byte(placement))
	d.put32(uint32(len(frame)))
	d.w.Write(frame)
	d.w.Flush()
	v, err := d.u32()
	if err != nil {
		return r, err
	}
	r.Verdict = int32(v)
	r.Fault, _ = d.u32()
	r.FaultAddr, _ = d.u64()
	r.Priority, _ = d.u32()
	r.Events, _ = d.u32()
	l, err := d.u32()
	if err != nil {
		return r, err
	}
	r.Frame = make([]byte, l)
	if _, err := io.ReadFull(d.r, r.Frame); err != nil {
		return r, d.fail(err)
	}
	return r, nil
}

// SetState asks an enumerator-enabled driver to build its n-th built-in map state; returns the number of states (0 = no such state).
func (d *Driver) SetState(n uint32) (uint32, error) {
	d.w.WriteByte('S')
	d.put32(n)
	d.w.Flush()
	return d.u32()
}

// Shape returns the n-th structured frame shape of the built-in enumerator (nil = exhausted).
func (d *Driver) Shape(n uint32) ([]byte, error) {
	d.w.WriteByte('F')
	d.put32(n)
	d.w.Flush()
	l, err := d.u32()
	if err != nil || l == 0 {
		return nil, err
	}
	b := make([]byte, l)
	if _, err := io.ReadFull(d.r, b); err != nil {
		return nil, d.fail(err)
	}
	return b, nil
}

const (
	XDP_ABORTED = 0
	XDP_DROP    = 1
	XDP_PASS    = 2
	XDP_TX      = 3
	TC_ACT_OK   = 0
	TC_ACT_SHOT = 2
)
