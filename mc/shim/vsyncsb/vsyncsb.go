// Package vsyncsb is what a rewritten `import "sync"` becomes when a package is
// listed with BOTH rewrite kinds "sync" and "syncb": one binary that runs
// Engine B scenarios (verif/sched, every lock operation a scheduling point) and
// Engine A executions in many testing/synctest bubbles.
//
// Mutex, RWMutex and Once are verif/shim/vsync's (cooperative while a controlled
// execution is active, the real primitive otherwise). WaitGroup is cooperative
// while a controlled execution is active and otherwise verif/shim/vsyncb's
// bubble-safe WaitGroup instead of the real one (see vsyncb for the Go 1.25.0
// defect that makes the real WaitGroup unusable across many bubbles).
package vsyncsb

import (
	"sync"

	"verif/sched"
	"verif/shim/vsync"
	"verif/shim/vsyncb"
)

type (
	Mutex   = vsync.Mutex
	RWMutex = vsync.RWMutex
	Once    = vsync.Once
	Map     = sync.Map
	Pool    = sync.Pool
	Locker  = sync.Locker
	Cond    = sync.Cond
)

func NewCond(l Locker) *Cond   { return sync.NewCond(l) }
func OnceFunc(f func()) func() { return vsync.OnceFunc(f) }

type WaitGroup struct {
	free vsyncb.WaitGroup
	n    int
}

func (w *WaitGroup) Add(d int) {
	x := sched.Active()
	if x == nil {
		w.free.Add(d)
		return
	}
	w.n += d
	if w.n == 0 {
		x.Wake(w)
	}
}

func (w *WaitGroup) Done() { w.Add(-1) }

func (w *WaitGroup) Go(f func()) {
	w.Add(1)
	if x := sched.Active(); x != nil {
		x.Go("wg.go", func() { defer w.Done(); f() })
		return
	}
	go func() { defer w.Done(); f() }()
}

func (w *WaitGroup) Wait() {
	x := sched.Active()
	if x == nil {
		w.free.Wait()
		return
	}
	x.Point("Wait")
	for w.n > 0 && !x.Aborted() {
		x.Block(w, "Wait-wait")
	}
}
