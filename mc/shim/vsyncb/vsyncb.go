// Package vsyncb ("sync for synctest bubbles") is what a rewritten
// `import "sync"` becomes with rewrite kind "syncb". Everything is the real
// sync package except WaitGroup.
//
// Why: Go 1.25.0 ties a sync.WaitGroup to the synctest bubble in which Add was
// first called by attaching a runtime "special" to the WaitGroup's address. The
// special is not reliably removed when the WaitGroup's memory is freed, so a
// harness that creates many instances of the system under test in many bubbles
// eventually dies with the spurious
//
//	fatal error: sync: WaitGroup.Add called from multiple synctest bubbles
//
// when a new instance's WaitGroup lands on a recycled address (reproducible
// with a 20-line test that only allocates a struct holding a WaitGroup in
// successive bubbles). This WaitGroup has the same semantics, is built on a
// mutex and a channel created by the waiter (so Wait is a durable block inside
// a bubble), and carries no bubble association.
package vsyncb

import "sync"

type (
	Mutex   = sync.Mutex
	RWMutex = sync.RWMutex
	Once    = sync.Once
	Cond    = sync.Cond
	Map     = sync.Map
	Pool    = sync.Pool
	Locker  = sync.Locker
)

func NewCond(l Locker) *Cond                                   { return sync.NewCond(l) }
func OnceFunc(f func()) func()                                 { return sync.OnceFunc(f) }
func OnceValue[T any](f func() T) func() T                     { return sync.OnceValue(f) }
func OnceValues[T1, T2 any](f func() (T1, T2)) func() (T1, T2) { return sync.OnceValues(f) }

// WaitGroup: zero value ready to use, must not be copied after first use.
type WaitGroup struct {
	mu      sync.Mutex
	n       int
	waiters []chan struct{}
}

func (w *WaitGroup) Add(delta int) {
	w.mu.Lock()
	w.n += delta
	if w.n < 0 {
		w.mu.Unlock()
		panic("sync: negative WaitGroup counter")
	}
	if w.n == 0 {
		for _, c := range w.waiters {
			close(c)
		}
		w.waiters = nil
	}
	w.mu.Unlock()
}

func (w *WaitGroup) Done() { w.Add(-1) }

func (w *WaitGroup) Wait() {
	w.mu.Lock()
	if w.n == 0 {
		w.mu.Unlock()
		return
	}
	c := make(chan struct{})
	w.waiters = append(w.waiters, c)
	w.mu.Unlock()
	<-c
}

func (w *WaitGroup) Go(f func()) {
	w.Add(1)
	go func() {
		defer w.Done()
		f()
	}()
}
