// Package vsched is what rewritten `go f(x)` statements call.
package vsched

import "verif/sched"

// Go starts f as a logical thread under the controlled scheduler, or as a plain
// goroutine when no controlled execution is active.
func Go(f func()) {
	if x := sched.Active(); x != nil {
		x.Go("go", f)
		return
	}
	go f()
}
