// Package vbpf is what the "bpfmap" rewrite turns kernel-map method calls of a field (x.f.Put / Lookup / Delete)
// into: the same call, preceded by a scheduling point when a controlled execution is active. A kernel map is
// shared state reached by a system call; a read-modify-write made of Lookup + Put is a check-then-act sequence
// exactly like one made of two lock sections, so each call must be a point where another logical thread can run.
package vbpf

import "verif/sched"

func pt(l string) {
	if x := sched.Active(); x != nil {
		x.Point(l)
	}
}

func Put[M interface{ Put(k, v any) error }](m M, k, v any) error {
	pt("map.Put")
	return m.Put(k, v)
}

func Lookup[M interface{ Lookup(k, v any) error }](m M, k, v any) error {
	pt("map.Lookup")
	return m.Lookup(k, v)
}

func Delete[M interface{ Delete(k any) error }](m M, k any) error {
	pt("map.Delete")
	return m.Delete(k)
}
