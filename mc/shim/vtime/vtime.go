// Package vtime replaces time.AfterFunc/Now/Since/Sleep/Until and *time.Timer in
// rewritten packages. Under a controlled execution time is virtual and timers are
// logical threads (see sched.Exec.AfterFunc/Advance); otherwise it is real time.
package vtime

import (
	"sync/atomic"
	"time"

	"verif/sched"
)

type Timer struct {
	real *time.Timer
	v    *sched.Timer
	C    <-chan time.Time
	// done (real-time path only): 1 once the function has been started, 2 once
	// stopped before firing. Lets Engine A harnesses ask Armed() and makes the
	// armed/dead distinction visible to deepdump fingerprints.
	done atomic.Int32
}

// Armed reports whether the timer is still going to fire (not fired, not stopped).
func (t *Timer) Armed() bool {
	if t == nil {
		return false
	}
	if t.v != nil {
		return t.v.Pending()
	}
	return t.done.Load() == 0
}

func Now() time.Time {
	if x := sched.Active(); x != nil {
		return x.TickNow()
	}
	return time.Now()
}

func Since(t time.Time) time.Duration { return Now().Sub(t) }
func Until(t time.Time) time.Duration { return t.Sub(Now()) }

func Sleep(d time.Duration) {
	if x := sched.Active(); x != nil {
		// virtual sleep: a scheduling point; time does not advance by itself
		x.Point("Sleep")
		return
	}
	time.Sleep(d)
}

func AfterFunc(d time.Duration, f func()) *Timer {
	if x := sched.Active(); x != nil {
		return &Timer{v: x.AfterFunc(d, f)}
	}
	t := &Timer{}
	t.real = time.AfterFunc(d, func() {
		if t.done.CompareAndSwap(0, 1) {
			f()
		}
	})
	return t
}

func (t *Timer) Stop() bool {
	if t.v != nil {
		if x := sched.Active(); x != nil {
			x.Point("Timer.Stop")
		}
		return t.v.Stop()
	}
	ok := t.real.Stop()
	if ok {
		t.done.CompareAndSwap(0, 2)
	}
	return ok
}

func (t *Timer) Reset(d time.Duration) bool {
	if t.v != nil {
		panic("vtime: Reset on virtual AfterFunc timer not supported")
	}
	return t.real.Reset(d)
}
