// Package vfs is what a rewritten `import "os"` becomes in packages whose
// persistence directory the harness must own (rewrite kind "os"). It exposes
// the os functions those packages use, with the same signatures. Paths below a
// mounted prefix are served by an in-memory file system that logs every
// operation and asks a harness-supplied gate before each one (crash at
// operation k before/after taking effect, torn writes); all other paths go to
// the real os package, so a rewritten package behaves exactly like the original
// for every other user.
package vfs

import (
	"io/fs"
	"os"
	"path"
	"sort"
	"strings"
	"sync"
	"syscall"
	"time"
)

// Names re-exported so that rewritten code keeps compiling.
type (
	FileMode = fs.FileMode
	DirEntry = fs.DirEntry
	FileInfo = fs.FileInfo
)

var (
	ErrNotExist = fs.ErrNotExist
	ErrExist    = fs.ErrExist
)

func IsNotExist(err error) bool { return os.IsNotExist(err) }
func IsExist(err error) bool    { return os.IsExist(err) }

// Effect says how much of an operation takes effect.
type Effect int

const (
	Full      Effect = iota // the operation takes effect normally
	None                    // no effect at all
	TornEmpty               // WriteFile: the file is left empty (truncated, nothing written)
	TornHalf                // WriteFile: the file holds the first half of the data
)

// Op is one logged operation.
type Op struct {
	N        int    // index in the log
	Kind     string // MkdirAll | WriteFile | ReadFile | ReadDir | Remove | Rename
	Path     string
	Path2    string // Rename target
	Size     int    // WriteFile: len(data)
	Mutating bool
	Effect   Effect
	Err      string
}

// Gate is consulted before every operation. It returns how much of the
// operation takes effect and the error the caller sees (nil = the natural
// result of the operation).
type Gate func(op *Op) (Effect, error)

// FS is one in-memory file system.
type FS struct {
	mu    sync.Mutex
	files map[string][]byte
	dirs  map[string]bool
	log   []Op
	gate  Gate
}

func New() *FS { return &FS{files: map[string][]byte{}, dirs: map[string]bool{"/": true}} }

// SetGate installs g (nil = every operation takes full effect).
func (f *FS) SetGate(g Gate) { f.mu.Lock(); f.gate = g; f.mu.Unlock() }

// Log returns a copy of the operation log.
func (f *FS) Log() []Op { f.mu.Lock(); defer f.mu.Unlock(); return append([]Op(nil), f.log...) }

// Files returns a copy of all files (path -> content).
func (f *FS) Files() map[string][]byte {
	f.mu.Lock()
	defer f.mu.Unlock()
	out := make(map[string][]byte, len(f.files))
	for k, v := range f.files {
		out[k] = append([]byte(nil), v...)
	}
	return out
}

// Dirs returns all directories, sorted.
func (f *FS) Dirs() []string {
	f.mu.Lock()
	defer f.mu.Unlock()
	var out []string
	for d := range f.dirs {
		out = append(out, d)
	}
	sort.Strings(out)
	return out
}

var mounts sync.Map // prefix -> *FS ; prefixes have the form "/vfs/<id>"

// Mount serves every path equal to or below prefix from f. prefix must have the
// form "/vfs/<id>".
func Mount(prefix string, f *FS) {
	if !strings.HasPrefix(prefix, "/vfs/") || strings.Count(prefix, "/") != 2 {
		panic("vfs: mount prefix must be /vfs/<id>")
	}
	mounts.Store(prefix, f)
}

func Unmount(prefix string) { mounts.Delete(prefix) }

func lookup(p string) (*FS, string) {
	if !strings.HasPrefix(p, "/vfs/") {
		return nil, ""
	}
	rest := p[len("/vfs/"):]
	id := rest
	if i := strings.IndexByte(rest, '/'); i >= 0 {
		id = rest[:i]
	}
	if f, ok := mounts.Load("/vfs/" + id); ok {
		return f.(*FS), path.Clean(p)
	}
	return nil, ""
}

func (f *FS) begin(kind, p, p2 string, size int, mutating bool) (*Op, Effect, error) {
	op := Op{N: len(f.log), Kind: kind, Path: p, Path2: p2, Size: size, Mutating: mutating}
	eff, err := Full, error(nil)
	if f.gate != nil {
		g := f.gate
		f.mu.Unlock()
		eff, err = g(&op)
		f.mu.Lock()
		op.N = len(f.log)
	}
	op.Effect = eff
	if err != nil {
		op.Err = err.Error()
	}
	f.log = append(f.log, op)
	return &f.log[len(f.log)-1], eff, err
}

func notExist(op, p string) error { return &fs.PathError{Op: op, Path: p, Err: syscall.ENOENT} }

func (f *FS) mkdirAll(p string) error {
	for q := p; q != "/" && q != "."; q = path.Dir(q) {
		if _, isFile := f.files[q]; isFile {
			return &fs.PathError{Op: "mkdir", Path: q, Err: syscall.ENOTDIR}
		}
	}
	for q := p; q != "/" && q != "."; q = path.Dir(q) {
		f.dirs[q] = true
	}
	return nil
}

func MkdirAll(p string, perm FileMode) error {
	f, c := lookup(p)
	if f == nil {
		return os.MkdirAll(p, perm)
	}
	f.mu.Lock()
	defer f.mu.Unlock()
	_, eff, gerr := f.begin("MkdirAll", c, "", 0, true)
	var err error
	if eff != None {
		err = f.mkdirAll(c)
	}
	if gerr != nil {
		return gerr
	}
	return err
}

func WriteFile(name string, data []byte, perm FileMode) error {
	f, c := lookup(name)
	if f == nil {
		return os.WriteFile(name, data, perm)
	}
	f.mu.Lock()
	defer f.mu.Unlock()
	_, eff, gerr := f.begin("WriteFile", c, "", len(data), true)
	var err error
	if eff != None {
		switch {
		case !f.dirs[path.Dir(c)]:
			err = notExist("open", c)
		case f.dirs[c]:
			err = &fs.PathError{Op: "open", Path: c, Err: syscall.EISDIR}
		case eff == TornEmpty:
			f.files[c] = []byte{}
		case eff == TornHalf:
			f.files[c] = append([]byte(nil), data[:len(data)/2]...)
		default:
			f.files[c] = append([]byte(nil), data...)
		}
	}
	if gerr != nil {
		return gerr
	}
	return err
}

func ReadFile(name string) ([]byte, error) {
	f, c := lookup(name)
	if f == nil {
		return os.ReadFile(name)
	}
	f.mu.Lock()
	defer f.mu.Unlock()
	_, _, gerr := f.begin("ReadFile", c, "", 0, false)
	if gerr != nil {
		return nil, gerr
	}
	d, ok := f.files[c]
	if !ok {
		return nil, notExist("open", c)
	}
	return append([]byte(nil), d...), nil
}

type dirEntry struct {
	name string
	dir  bool
	size int64
}

func (d dirEntry) Name() string { return d.name }
func (d dirEntry) IsDir() bool  { return d.dir }
func (d dirEntry) Type() FileMode {
	if d.dir {
		return fs.ModeDir
	}
	return 0
}
func (d dirEntry) Info() (FileInfo, error) { return d, nil }
func (d dirEntry) Size() int64             { return d.size }
func (d dirEntry) Mode() FileMode          { return d.Type() | 0o600 }
func (d dirEntry) ModTime() time.Time      { return time.Time{} }
func (d dirEntry) Sys() any                { return nil }

// ReadDir lists a directory sorted by name, like os.ReadDir.
func ReadDir(name string) ([]DirEntry, error) {
	f, c := lookup(name)
	if f == nil {
		return os.ReadDir(name)
	}
	f.mu.Lock()
	defer f.mu.Unlock()
	_, _, gerr := f.begin("ReadDir", c, "", 0, false)
	if gerr != nil {
		return nil, gerr
	}
	if !f.dirs[c] {
		return nil, notExist("open", c)
	}
	var out []DirEntry
	for p, d := range f.files {
		if path.Dir(p) == c {
			out = append(out, dirEntry{name: path.Base(p), size: int64(len(d))})
		}
	}
	for p := range f.dirs {
		if p != c && path.Dir(p) == c {
			out = append(out, dirEntry{name: path.Base(p), dir: true})
		}
	}
	sort.Slice(out, func(i, j int) bool { return out[i].Name() < out[j].Name() })
	return out, nil
}

func Remove(name string) error {
	f, c := lookup(name)
	if f == nil {
		return os.Remove(name)
	}
	f.mu.Lock()
	defer f.mu.Unlock()
	_, eff, gerr := f.begin("Remove", c, "", 0, true)
	var err error
	if eff != None {
		if _, ok := f.files[c]; ok {
			delete(f.files, c)
		} else if f.dirs[c] {
			empty := true
			for p := range f.files {
				if path.Dir(p) == c {
					empty = false
				}
			}
			for p := range f.dirs {
				if p != c && path.Dir(p) == c {
					empty = false
				}
			}
			if !empty {
				err = &fs.PathError{Op: "remove", Path: c, Err: syscall.ENOTEMPTY}
			} else {
				delete(f.dirs, c)
			}
		} else {
			err = notExist("remove", c)
		}
	}
	if gerr != nil {
		return gerr
	}
	return err
}

// Rename atomically replaces newpath by oldpath (files only).
func Rename(oldpath, newpath string) error {
	f, c := lookup(oldpath)
	f2, c2 := lookup(newpath)
	if f == nil && f2 == nil {
		return os.Rename(oldpath, newpath)
	}
	if f != f2 {
		return &os.LinkError{Op: "rename", Old: oldpath, New: newpath, Err: syscall.EXDEV}
	}
	f.mu.Lock()
	defer f.mu.Unlock()
	_, eff, gerr := f.begin("Rename", c, c2, 0, true)
	var err error
	if eff != None {
		d, ok := f.files[c]
		switch {
		case !ok:
			err = &os.LinkError{Op: "rename", Old: c, New: c2, Err: syscall.ENOENT}
		case !f.dirs[path.Dir(c2)]:
			err = &os.LinkError{Op: "rename", Old: c, New: c2, Err: syscall.ENOENT}
		default:
			f.files[c2] = d
			delete(f.files, c)
		}
	}
	if gerr != nil {
		return gerr
	}
	return err
}
