// Package vsync is a drop-in replacement for the parts of package sync the
// repository uses. While a controlled execution (verif/sched) is active every
// operation is a scheduling point and blocking is modelled explicitly; otherwise
// each type falls back to the real sync primitive, so the same rewritten
// packages can be used by single-threaded (Engine A) harnesses in the same binary.
package vsync

import (
	"sync"

	"verif/sched"
)

type (
	Map    = sync.Map
	Pool   = sync.Pool
	Locker = sync.Locker
)

type Mutex struct {
	real sync.Mutex
	held bool
}

func (m *Mutex) Lock() {
	x := sched.Active()
	if x == nil {
		m.real.Lock()
		return
	}
	x.Point("Lock")
	for m.held && !x.Aborted() {
		x.Block(m, "Lock-wait")
	}
	m.held = true
	x.Acquired(m)
}

func (m *Mutex) TryLock() bool {
	x := sched.Active()
	if x == nil {
		return m.real.TryLock()
	}
	x.Point("TryLock")
	if m.held {
		return false
	}
	m.held = true
	return true
}

func (m *Mutex) Unlock() {
	x := sched.Active()
	if x == nil {
		m.real.Unlock()
		return
	}
	if !m.held && !x.Aborted() {
		panic("vsync: unlock of unlocked mutex")
	}
	m.held = false
	x.Wake(m)
	x.Point("Unlock")
}

type RWMutex struct {
	real    sync.RWMutex
	writer  bool
	readers int
}

func (m *RWMutex) Lock() {
	x := sched.Active()
	if x == nil {
		m.real.Lock()
		return
	}
	x.Point("Lock")
	for (m.writer || m.readers > 0) && !x.Aborted() {
		x.Block(m, "Lock-wait")
	}
	m.writer = true
	x.Acquired(m)
}

func (m *RWMutex) Unlock() {
	x := sched.Active()
	if x == nil {
		m.real.Unlock()
		return
	}
	if !m.writer && !x.Aborted() {
		panic("vsync: unlock of unlocked rwmutex")
	}
	m.writer = false
	x.Wake(m)
	x.Point("Unlock")
}

func (m *RWMutex) RLock() {
	x := sched.Active()
	if x == nil {
		m.real.RLock()
		return
	}
	x.Point("RLock")
	for m.writer && !x.Aborted() {
		x.Block(m, "RLock-wait")
	}
	m.readers++
	x.Acquired(m)
}

func (m *RWMutex) RUnlock() {
	x := sched.Active()
	if x == nil {
		m.real.RUnlock()
		return
	}
	if m.readers <= 0 && !x.Aborted() {
		panic("vsync: runlock of unlocked rwmutex")
	}
	m.readers--
	x.Wake(m)
	x.Point("RUnlock")
}

func (m *RWMutex) RLocker() sync.Locker { return (*rlocker)(m) }

type rlocker RWMutex

func (r *rlocker) Lock()   { (*RWMutex)(r).RLock() }
func (r *rlocker) Unlock() { (*RWMutex)(r).RUnlock() }

type WaitGroup struct {
	real sync.WaitGroup
	n    int
}

func (w *WaitGroup) Add(d int) {
	x := sched.Active()
	if x == nil {
		w.real.Add(d)
		return
	}
	w.n += d
	if w.n == 0 {
		x.Wake(w)
	}
}

func (w *WaitGroup) Done() { w.Add(-1) }

func (w *WaitGroup) Go(f func()) {
	w.Add(1)
	if x := sched.Active(); x != nil {
		x.Go("wg.go", func() { defer w.Done(); f() })
		return
	}
	go func() { defer w.Done(); f() }()
}

func (w *WaitGroup) Wait() {
	x := sched.Active()
	if x == nil {
		w.real.Wait()
		return
	}
	x.Point("Wait")
	for w.n > 0 && !x.Aborted() {
		x.Block(w, "Wait-wait")
	}
}

type Once struct {
	real sync.Once
	m    Mutex
	done bool
}

func (o *Once) Do(f func()) {
	x := sched.Active()
	if x == nil {
		o.real.Do(f)
		return
	}
	o.m.Lock()
	defer o.m.Unlock()
	if !o.done {
		defer func() { o.done = true }()
		f()
	}
}

func OnceFunc(f func()) func() { var o Once; return func() { o.Do(f) } }
