// Package vradius is what a rewritten `radius.Exchange(ctx, packet, addr)` call
// (layeh.com/radius; rewrite kind "xchg") becomes: `vradius.Exchange(ctx,
// packet, addr)`. A harness installs a scripted in-memory RADIUS server either
//
//   - per address with Register/Unregister (every instance of the system under
//     test uses its own address, so parallel executions stay independent), or
//   - process-wide with SetExchange.
//
// A per-address handler wins over the process-wide one. When neither is
// installed the call goes to the real radius.Exchange, so a rewritten package
// behaves exactly like the original for every other user.
package vradius

import (
	"context"
	"sync"
	"sync/atomic"

	"layeh.com/radius"
)

// Handler answers one request; it has the signature of radius.Exchange. To
// model a server that does not answer, block until ctx is done and return
// ctx.Err() (inside a synctest bubble that is a durable block, so the fake
// clock reaches the caller's timeout).
type Handler = func(ctx context.Context, packet *radius.Packet, addr string) (*radius.Packet, error)

var (
	servers sync.Map // addr -> Handler
	global  atomic.Pointer[Handler]
)

// SetExchange installs a process-wide scripted exchange (nil removes it).
func SetExchange(h Handler) {
	if h == nil {
		global.Store(nil)
		return
	}
	global.Store(&h)
}

// Register installs h for requests sent to addr ("host:port").
func Register(addr string, h Handler) { servers.Store(addr, h) }

// Unregister removes the handler of addr.
func Unregister(addr string) { servers.Delete(addr) }

// Exchange has the signature of radius.Exchange.
func Exchange(ctx context.Context, packet *radius.Packet, addr string) (*radius.Packet, error) {
	if h, ok := servers.Load(addr); ok {
		return h.(Handler)(ctx, packet, addr)
	}
	if h := global.Load(); h != nil {
		return (*h)(ctx, packet, addr)
	}
	return radius.Exchange(ctx, packet, addr)
}
