// Package sched is Engine B: a cooperative scheduler for logical threads plus a
// depth-first explorer with iterative preemption bounding (CHESS style).
//
// Exactly one logical thread runs at a time. Instrumented code (shim/vsync,
// shim/vtime, rewritten `go` statements) calls Point() before each lock /
// unlock / wait / spawn / timer operation; at a point the scheduler either lets
// the running thread continue or hands control to another enabled thread.
// Switching away from a thread that could have continued costs one preemption.
package sched

import (
	"fmt"
	"runtime"
	"strings"
	"sync"
	"sync/atomic"
	"time"
)

type Thread struct {
	ID      int
	Name    string
	wake    chan struct{}
	done    bool
	started bool
	blocked any // object the thread waits for (nil = enabled)
	// timer threads: not enabled until armed time is reached
	timer *Timer
	body  func()
	// idle threads (see IdleThread) are only scheduled when nothing else can run
	idle bool
}

type point struct {
	nEnabled       int
	runningEnabled bool
	chosen         int
	label          string
}

// Exec is one controlled execution.
type Exec struct {
	threads  []*Thread
	cur      *Thread
	prefix   []int
	points   []point
	steps    int
	Horizon  int
	aborted  bool
	Deadlock bool
	Livelock bool
	Diverged string
	toDriver chan struct{}
	pending  *Thread
	Log      []string // observations recorded by the harness (determinism + outcome)
	Data     any      // harness state
	Now      time.Time
	// NowTick: when non-zero every read of the virtual clock (TickNow, used by vtime.Now) advances it by this much,
	// so that successive clock reads are strictly ordered like a real clock's and timestamps written by the code
	// under test reveal the order in which they were TAKEN. It does not fire timers (only Advance does).
	NowTick   time.Duration
	timers    []*Timer
	PanicText string
	schedule  []string // human readable schedule: thread names at choice points
	free      bool
	freeMu    sync.Mutex
	seq       bool // inside Sequential: scheduling switched off (see Sequential)
	// OnAcquire, when set, is called by the vsync shims right after the running thread has ACQUIRED lock m
	// (write or read mode). It lets an oracle timestamp the moment a handler really entered a critical section
	// (the linearisation point of "the event reached the component"). No scheduling effect. (Added for C14.)
	OnAcquire func(m any)
}

// Acquired is called by the lock shims after a successful acquisition (see OnAcquire).
func (x *Exec) Acquired(m any) {
	if x.OnAcquire != nil && !x.aborted {
		x.OnAcquire(m)
	}
}

// CurName returns the name of the running logical thread ("" outside a controlled execution).
func (x *Exec) CurName() string {
	if x.cur == nil {
		return ""
	}
	return x.cur.Name
}

// Sequential runs f in the calling goroutine with scheduling switched off:
// scheduling points are no-ops and `go` statements of rewritten code run their
// function inline, to completion, at the point of the statement. It is meant for
// deterministic sequential prefixes in Scenario.Setup whose code spawns
// goroutines (a Point in Setup with a registered thread would otherwise hand
// control to a driver that is not running yet). Blocking inside f is a harness
// error and panics. (Added for C16; existing behaviour is unchanged when unused.)
func (x *Exec) Sequential(f func()) {
	old := x.seq
	x.seq = true
	defer func() { x.seq = old }()
	f()
}

type abortT struct{}

var active atomic.Pointer[Exec]

// Active returns the execution currently being controlled, or nil.
func Active() *Exec { return active.Load() }

// Obs appends an observation to the execution log.
func (x *Exec) Obs(f string, a ...any) {
	if x.free {
		x.freeMu.Lock()
		defer x.freeMu.Unlock()
	}
	x.Log = append(x.Log, fmt.Sprintf(f, a...))
}

// RunFree executes the scenario WITHOUT the controlled scheduler: every registered thread is a real goroutine,
// released together, on real sync primitives (the vsync shims fall back to package sync when no controlled
// execution is active). This is the separate free-running pass meant to be built with -race: the cooperative
// scheduler's hand-offs are happens-before edges that would blind the race detector. It samples schedules and
// therefore never decides a property; a race report fails the pass.
func RunFree(sc *Scenario) *Exec {
	x := &Exec{free: true, Horizon: 1 << 30, Now: time.Date(2030, 1, 1, 0, 0, 0, 0, time.UTC)}
	sc.Setup(x)
	start := make(chan struct{})
	done := make(chan struct{}, len(x.threads))
	for _, t := range x.threads {
		go func(t *Thread) {
			defer func() { recover(); done <- struct{}{} }()
			<-start
			t.body()
		}(t)
	}
	close(start)
	for range x.threads {
		<-done
	}
	return x
}

// Thread registers a logical thread (before the execution starts or, via Go, during it).
func (x *Exec) Thread(name string, body func()) *Thread {
	t := &Thread{ID: len(x.threads), Name: name, wake: make(chan struct{}, 1), body: body}
	x.threads = append(x.threads, t)
	return t
}

func (x *Exec) enabledList(tEnabled bool) []*Thread {
	var en []*Thread
	if x.cur != nil && tEnabled && !x.cur.done && x.cur.blocked == nil {
		en = append(en, x.cur)
	}
	for _, t := range x.threads {
		if t == x.cur && tEnabled {
			continue
		}
		if t.done || t.blocked != nil {
			continue
		}
		if t == x.cur {
			continue
		}
		if t.timer != nil && !t.timer.fired {
			continue
		}
		if t.idle {
			continue
		}
		en = append(en, t)
	}
	if len(en) == 0 {
		// nothing else can run: the first runnable idle thread (no choice point)
		for _, t := range x.threads {
			if t.idle && t != x.cur && !t.done && t.blocked == nil {
				en = append(en, t)
				break
			}
		}
	}
	return en
}

func (x *Exec) start(t *Thread) {
	t.started = true
	go func() {
		<-t.wake
		defer func() {
			if r := recover(); r != nil {
				if _, ok := r.(abortT); !ok {
					buf := make([]byte, 8192)
					n := runtime.Stack(buf, false)
					if x.PanicText == "" {
						x.PanicText = fmt.Sprintf("thread %s panicked: %v\n%s", t.Name, r, buf[:n])
					}
					x.aborted = true
				}
			}
			t.done = true
			if !x.aborted {
				x.pending = x.decide(false, "exit")
			}
			x.toDriver <- struct{}{}
		}()
		if x.aborted {
			return
		}
		t.body()
	}()
}

// decide picks the next thread to run (nil: nothing can run). It is called by
// the running thread (only one runs at a time) or by the driver at start.
func (x *Exec) decide(tEnabled bool, label string) *Thread {
	t := x.cur
	x.steps++
	if x.steps > x.Horizon {
		x.Livelock = true
		x.aborted = true
		return nil
	}
	en := x.enabledList(tEnabled)
	if len(en) == 0 {
		for _, o := range x.threads {
			if !o.done && !(o.timer != nil && !o.timer.fired) {
				x.Deadlock = true
			}
		}
		return nil
	}
	pick := en[0]
	if len(en) > 1 {
		i := len(x.points)
		c := 0
		if i < len(x.prefix) {
			c = x.prefix[i]
			if c < 0 || c >= len(en) {
				x.Diverged = fmt.Sprintf("choice %d out of range at point %d (enabled %d)", c, i, len(en))
				x.aborted = true
				return nil
			}
		}
		x.points = append(x.points, point{nEnabled: len(en), runningEnabled: tEnabled && t != nil && !t.done && t.blocked == nil, chosen: c, label: label})
		pick = en[c]
		x.schedule = append(x.schedule, fmt.Sprintf("%s@%s", pick.Name, label))
	}
	return pick
}

func (x *Exec) yield(t *Thread) {
	x.toDriver <- struct{}{}
	<-t.wake
	if x.aborted {
		panic(abortT{})
	}
}

// drive is the driver loop: it hands the processor to the pending thread and
// waits until that thread yields, blocks or exits.
func (x *Exec) drive() {
	x.cur = nil
	x.pending = x.decide(false, "start")
	for x.pending != nil && !x.aborted {
		p := x.pending
		x.pending = nil
		x.cur = p
		if !p.started {
			x.start(p)
		}
		p.wake <- struct{}{}
		<-x.toDriver
	}
	// wind down: every parked thread unwinds with the abort sentinel
	x.aborted = true
	for _, t := range x.threads {
		if t.started && !t.done {
			x.cur = t
			t.wake <- struct{}{}
			<-x.toDriver
		}
	}
}

// Point is a scheduling point of the running thread.
func (x *Exec) Point(label string) {
	if x.aborted || x.seq {
		return
	}
	t := x.cur
	pick := x.decide(true, label)
	if pick == t {
		return
	}
	x.pending = pick
	x.yield(t)
}

// Block parks the running thread until obj is signalled by Wake.
func (x *Exec) Block(obj any, label string) {
	if x.aborted {
		return
	}
	if x.seq {
		panic("sched: Block(" + label + ") inside Sequential: the sequential prefix would deadlock")
	}
	t := x.cur
	t.blocked = obj
	x.pending = x.decide(false, label)
	x.yield(t)
}

// Wake enables every thread blocked on obj.
func (x *Exec) Wake(obj any) {
	for _, t := range x.threads {
		if t.blocked == obj {
			t.blocked = nil
		}
	}
}

// Go spawns a logical thread from instrumented code.
func (x *Exec) Go(name string, f func()) {
	if x.seq {
		f()
		return
	}
	x.Thread(name, f)
	x.Point("go")
}

func (x *Exec) Aborted() bool { return x.aborted }

// Schedule returns the human-readable schedule of the execution.
func (x *Exec) Schedule() []string { return x.schedule }

// Choices returns the choice made at every branching point.
func (x *Exec) Choices() []int {
	c := make([]int, len(x.points))
	for i, p := range x.points {
		c[i] = p.chosen
	}
	return c
}

// ---------------------------------------------------------------- timers

type Timer struct {
	x       *Exec
	when    time.Time
	fired   bool
	stopped bool
	t       *Thread
}

// AfterFunc registers f to run as its own logical thread once virtual time
// reaches now+d (see Advance).
func (x *Exec) AfterFunc(d time.Duration, f func()) *Timer {
	tm := &Timer{x: x, when: x.Now.Add(d)}
	tm.t = x.Thread(fmt.Sprintf("timer%d", len(x.timers)), func() {
		f()
	})
	tm.t.timer = tm
	x.timers = append(x.timers, tm)
	x.Point("afterfunc")
	return tm
}

// Stop cancels the timer. Like time.Timer.Stop it returns false if the timer has
// already fired (its function has been started in its own thread, which may not
// have run yet) or was stopped.
func (tm *Timer) Stop() bool {
	if tm.fired || tm.stopped {
		return false
	}
	tm.stopped = true
	tm.t.done = true
	return true
}

// TickNow reads the virtual clock (and advances it by NowTick, see there).
func (x *Exec) TickNow() time.Time {
	t := x.Now
	x.Now = x.Now.Add(x.NowTick)
	return t
}

// Advance moves virtual time forward and fires due timers (they become enabled
// threads that compete with everything else).
func (x *Exec) Advance(d time.Duration) {
	x.Now = x.Now.Add(d)
	for _, tm := range x.timers {
		if !tm.fired && !tm.stopped && !tm.when.After(x.Now) {
			tm.fired = true
		}
	}
	x.Point("advance")
}

// PendingTimers returns the number of armed, unfired timers.
func (x *Exec) PendingTimers() int {
	n := 0
	for _, tm := range x.timers {
		if !tm.fired && !tm.stopped {
			n++
		}
	}
	return n
}

// ---------------------------------------------------------------- explorer

// Scenario describes a small closed concurrent system.
type Scenario struct {
	Name string
	// Setup builds a fresh instance of the system and registers threads on x.
	Setup func(x *Exec)
	// Check is evaluated after every complete execution.
	Check func(x *Exec) []Viol
	// Horizon: max scheduling steps per execution (default 2000).
	Horizon int
}

type Viol struct{ Kind, Site, Detail string }

type Result struct {
	Executions int64
	Outcomes   map[string]int
	Bound      int // highest preemption bound completed
	Exhaustive bool
	Failures   []Failure
	MaxPoints  int
}

type Failure struct {
	Viols    []Viol
	Choices  []int
	Schedule []string
	Log      []string
	Bound    int
}

type Explorer struct {
	Bound       int
	Budget      time.Duration
	MaxExec     int64
	start       time.Time
	res         *Result
	sc          *Scenario
	capHit      bool
	stopOnFirst bool
}

// RunOnce executes the scenario under the given choice prefix.
func RunOnce(sc *Scenario, prefix []int) *Exec {
	x := &Exec{prefix: prefix, Horizon: sc.Horizon, toDriver: make(chan struct{}), Now: time.Date(2030, 1, 1, 0, 0, 0, 0, time.UTC)}
	if x.Horizon == 0 {
		x.Horizon = 2000
	}
	if !active.CompareAndSwap(nil, x) {
		panic("sched: nested or concurrent controlled executions are not supported")
	}
	defer active.Store(nil)
	sc.Setup(x)
	x.drive()
	return x
}

func (e *Explorer) Explore(sc *Scenario) *Result {
	e.start = time.Now()
	e.sc = sc
	e.res = &Result{Outcomes: map[string]int{}, Exhaustive: true, Bound: -1}
	for b := 0; b <= e.Bound; b++ {
		e.capHit = false
		before := len(e.res.Failures)
		e.explore(nil, b, b)
		if e.capHit {
			e.res.Exhaustive = false
			break
		}
		e.res.Bound = b
		if len(e.res.Failures) > before {
			break // minimal-preemption counterexample found
		}
	}
	return e.res
}

// explore runs prefix then default choices, checks, and branches on every later
// point. Executions with exactly-b... all executions with <= bound preemptions
// are covered; to avoid re-running lower bounds' executions the check is only
// *counted* once per distinct choice vector (cheap: re-execution is harmless).
func (e *Explorer) explore(prefix []int, bound int, _ int) {
	if e.capHit {
		return
	}
	if (e.Budget > 0 && time.Since(e.start) > e.Budget) || (e.MaxExec > 0 && e.res.Executions >= e.MaxExec) {
		e.capHit = true
		return
	}
	x := RunOnce(e.sc, prefix)
	e.res.Executions++
	if len(x.points) > e.res.MaxPoints {
		e.res.MaxPoints = len(x.points)
	}
	var vs []Viol
	if x.Diverged != "" {
		vs = append(vs, Viol{Kind: "harness-divergence", Site: "sched", Detail: x.Diverged})
	}
	if x.PanicText != "" {
		vs = append(vs, Viol{Kind: "panic", Site: "thread", Detail: x.PanicText})
	} else if x.Deadlock {
		vs = append(vs, Viol{Kind: "deadlock", Site: "sched", Detail: "no enabled thread while threads remain unfinished: " + strings.Join(x.schedule, ",")})
	} else if x.Livelock {
		vs = append(vs, Viol{Kind: "livelock", Site: "sched", Detail: "step horizon exceeded"})
	} else if e.sc.Check != nil {
		vs = append(vs, e.sc.Check(x)...)
	}
	e.res.Outcomes[strings.Join(x.Log, "|")]++
	if len(vs) > 0 {
		e.res.Failures = append(e.res.Failures, Failure{Viols: vs, Choices: x.Choices(), Schedule: x.Schedule(), Log: x.Log, Bound: bound})
		if len(e.res.Failures) >= 3 {
			e.capHit = false
		}
		return
	}
	// preemptions used before each point
	used := 0
	for i := 0; i < len(x.points); i++ {
		p := x.points[i]
		if i >= len(prefix) {
			for alt := 1; alt < p.nEnabled; alt++ {
				cost := used
				if p.runningEnabled {
					cost++
				}
				if cost > bound {
					continue
				}
				np := append(append([]int{}, x.Choices()[:i]...), alt)
				e.explore(np, bound, 0)
				if len(e.res.Failures) > 0 {
					return
				}
			}
		}
		if p.runningEnabled && p.chosen != 0 {
			used++
		}
	}
}

// Pending reports whether the timer is armed: not fired and not stopped.
func (tm *Timer) Pending() bool { return !tm.fired && !tm.stopped }

// RunDueInline advances virtual time by d and runs the function of every timer
// that became due in the CALLING goroutine, one after the other (no scheduling
// choice). It is meant for deterministic sequential prefixes executed in
// Scenario.Setup before any thread has been registered for scheduling. Returns
// the number of timer functions run.
func (x *Exec) RunDueInline(d time.Duration) int {
	x.Now = x.Now.Add(d)
	n := 0
	for i := 0; i < len(x.timers); i++ {
		tm := x.timers[i]
		if !tm.fired && !tm.stopped && !tm.when.After(x.Now) {
			tm.fired = true
			tm.t.done = true
			tm.t.body()
			n++
		}
	}
	return n
}

// IdleThread registers a logical thread that is scheduled only when no other
// thread is enabled (all others finished, blocked, or unfired timers). Use it
// for a deterministic sequential epilogue after a concurrent phase ("join").
// While an idle thread runs, threads it enables (fired timers, spawned threads)
// compete with it like with any other thread.
func (x *Exec) IdleThread(name string, body func()) *Thread {
	t := x.Thread(name, body)
	t.idle = true
	return t
}
