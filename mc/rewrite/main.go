// Command rewrite produces AST-rewritten copies of repository packages for
// Engine B and prints a `go build -overlay` Replace map on stdout.
//
//	rewrite -repo /repo -out DIR pkg[:sync,go,time] ...
//
// sync: import "sync" -> "verif/shim/vsync" (same local name)
// go:   `go f(x)`     -> vsched.Go(func(){ f(x) })
// time: time.AfterFunc/Now/Since/Sleep/Until and *time.Timer -> verif/shim/vtime
// syncb: import "sync" -> "verif/shim/vsyncb" (same local name): real sync except a
//
//	WaitGroup without synctest bubble association (Go 1.25.0 reports a spurious
//	"WaitGroup.Add called from multiple synctest bubbles" on recycled addresses);
//	for Engine A harnesses that run many bubbles. "sync,syncb" together ->
//	"verif/shim/vsyncsb": vsync's cooperative Mutex/RWMutex/Once plus a WaitGroup
//	that is cooperative under Engine B and bubble-safe otherwise.
//
// os:   import "os"   -> "verif/shim/vfs" (same local name): in-memory file system
//
//	that logs every operation and supports crash-at-operation-k and torn
//	writes; paths outside a mounted prefix go to the real os package
//
// xchg: radius.Exchange(...) of layeh.com/radius -> verif/shim/vradius.Exchange
//
//	(scripted in-memory RADIUS server; falls back to the real exchange when
//	no script is installed)
//
// bpfmap: calls x.f.Put(k, v) / x.f.Lookup(k, v) / x.f.Delete(k) on a FIELD (selector of a selector, e.g.
//
//	m.bindings.Put) -> vbpf.Put(x.f, k, v) ...: the same call preceded by a scheduling point, so that
//	read-modify-write sequences on kernel maps are interleaved by Engine B. A receiver whose method has
//	another signature does not compile (the wrappers are generic over the exact method signature).
//
// Nothing else is changed. A requested rewrite that matches nothing is an error
// (exit 2): an instrumentation failure must never look like a verdict.
package main

import (
	"encoding/json"
	"flag"
	"fmt"
	"go/ast"
	"go/format"
	"go/parser"
	"go/token"
	"os"
	"path/filepath"
	"strconv"
	"strings"
)

func die(f string, a ...any) {
	fmt.Fprintf(os.Stderr, "rewrite: "+f+"\n", a...)
	os.Exit(2)
}

func main() {
	repo := flag.String("repo", "/repo", "")
	out := flag.String("out", "", "")
	flag.Parse()
	rep := map[string]string{}
	for _, spec := range flag.Args() {
		pkg, opts, _ := strings.Cut(spec, ":")
		if opts == "" {
			opts = "sync,go,time"
		}
		want := map[string]bool{}
		for _, o := range strings.Split(opts, ",") {
			want[o] = true
		}
		dir := filepath.Join(*repo, "pkg", pkg)
		files, _ := filepath.Glob(filepath.Join(dir, "*.go"))
		hits := map[string]int{}
		for _, f := range files {
			if strings.HasSuffix(f, "_test.go") {
				continue
			}
			dst := filepath.Join(*out, pkg, filepath.Base(f))
			changed, err := rewriteFile(f, dst, want, hits)
			if err != nil {
				die("%s: %v", f, err)
			}
			if changed {
				rep[f] = dst
			}
		}
		for o := range want {
			if hits[o] == 0 && o != "go" && o != "time" {
				die("package %s: rewrite %q matched nothing", pkg, o)
			}
		}
	}
	json.NewEncoder(os.Stdout).Encode(rep)
}

var timeFuncs = map[string]bool{"AfterFunc": true, "Now": true, "Since": true, "Sleep": true, "Until": true}

func rewriteFile(src, dst string, want map[string]bool, hits map[string]int) (bool, error) {
	fset := token.NewFileSet()
	f, err := parser.ParseFile(fset, src, nil, parser.ParseComments)
	if err != nil {
		return false, err
	}
	changed := false
	syncName, timeName := "", ""
	lradName := ""
	for _, im := range f.Imports {
		p, _ := strconv.Unquote(im.Path.Value)
		switch p {
		case "sync":
			if want["sync"] && want["syncb"] {
				// both: cooperative primitives for Engine B + bubble-safe WaitGroup for Engine A
				name := "sync"
				if im.Name != nil {
					name = im.Name.Name
				}
				syncName = name
				im.Name = ast.NewIdent(name)
				im.Path.Value = strconv.Quote("verif/shim/vsyncsb")
				hits["sync"]++
				hits["syncb"]++
				changed = true
			} else if want["sync"] {
				name := "sync"
				if im.Name != nil {
					name = im.Name.Name
				}
				syncName = name
				im.Name = ast.NewIdent(name)
				im.Path.Value = strconv.Quote("verif/shim/vsync")
				hits["sync"]++
				changed = true
			} else if want["syncb"] {
				name := "sync"
				if im.Name != nil {
					name = im.Name.Name
				}
				im.Name = ast.NewIdent(name)
				im.Path.Value = strconv.Quote("verif/shim/vsyncb")
				hits["syncb"]++
				changed = true
			}
		case "os":
			if want["os"] {
				name := "os"
				if im.Name != nil {
					name = im.Name.Name
				}
				im.Name = ast.NewIdent(name)
				im.Path.Value = strconv.Quote("verif/shim/vfs")
				hits["os"]++
				changed = true
			}
		case "time":
			timeName = "time"
			if im.Name != nil {
				timeName = im.Name.Name
			}
		case "layeh.com/radius":
			lradName = "radius"
			if im.Name != nil {
				lradName = im.Name.Name
			}
		}
	}
	_ = syncName
	needVsched, needVtime := false, false
	if want["go"] {
		ast.Inspect(f, func(n ast.Node) bool {
			bs, ok := n.(*ast.BlockStmt)
			if ok {
				rewriteGoList(bs.List, &needVsched)
			}
			if cc, ok := n.(*ast.CaseClause); ok {
				rewriteGoList(cc.Body, &needVsched)
			}
			if cc, ok := n.(*ast.CommClause); ok {
				rewriteGoList(cc.Body, &needVsched)
			}
			return true
		})
		if needVsched {
			hits["go"]++
			changed = true
		}
	}
	if want["time"] && timeName != "" {
		ast.Inspect(f, func(n ast.Node) bool {
			se, ok := n.(*ast.SelectorExpr)
			if !ok {
				return true
			}
			id, ok := se.X.(*ast.Ident)
			if !ok || id.Name != timeName || id.Obj != nil {
				return true
			}
			if timeFuncs[se.Sel.Name] || se.Sel.Name == "Timer" {
				id.Name = "vtime"
				needVtime = true
			}
			return true
		})
		if needVtime {
			hits["time"]++
			changed = true
		}
	}
	needVradius := false
	if want["xchg"] && lradName != "" {
		ast.Inspect(f, func(n ast.Node) bool {
			se, ok := n.(*ast.SelectorExpr)
			if !ok {
				return true
			}
			id, ok := se.X.(*ast.Ident)
			if ok && id.Name == lradName && id.Obj == nil && se.Sel.Name == "Exchange" {
				id.Name = "vradius"
				needVradius = true
			}
			return true
		})
		if needVradius {
			hits["xchg"]++
			changed = true
		}
	}
	needVbpf := false
	if want["bpfmap"] {
		arity := map[string]int{"Put": 2, "Lookup": 2, "Delete": 1}
		ast.Inspect(f, func(n ast.Node) bool {
			ce, ok := n.(*ast.CallExpr)
			if !ok {
				return true
			}
			se, ok := ce.Fun.(*ast.SelectorExpr)
			if !ok {
				return true
			}
			if _, isField := se.X.(*ast.SelectorExpr); !isField {
				return true
			}
			if a, ok := arity[se.Sel.Name]; !ok || a != len(ce.Args) {
				return true
			}
			ce.Args = append([]ast.Expr{se.X}, ce.Args...)
			ce.Fun = &ast.SelectorExpr{X: ast.NewIdent("vbpf"), Sel: ast.NewIdent(se.Sel.Name)}
			needVbpf = true
			return true
		})
		if needVbpf {
			hits["bpfmap"]++
			changed = true
		}
	}
	if !changed {
		return false, nil
	}
	if needVbpf {
		addImport(f, "vbpf", "verif/shim/vbpf")
	}
	if needVradius {
		addImport(f, "vradius", "verif/shim/vradius")
	}
	if needVsched {
		addImport(f, "vsched", "verif/shim/vsched")
	}
	if needVtime {
		addImport(f, "vtime", "verif/shim/vtime")
		// keep "time" used
		f.Decls = append(f.Decls, &ast.GenDecl{Tok: token.VAR, Specs: []ast.Spec{&ast.ValueSpec{
			Names: []*ast.Ident{ast.NewIdent("_")}, Type: &ast.SelectorExpr{X: ast.NewIdent(timeName), Sel: ast.NewIdent("Duration")}}}})
	}
	if err := os.MkdirAll(filepath.Dir(dst), 0o755); err != nil {
		return false, err
	}
	w, err := os.Create(dst)
	if err != nil {
		return false, err
	}
	defer w.Close()
	// keep original positions in diagnostics
	fmt.Fprintf(w, "//line %s:1\n", src)
	return true, format.Node(w, fset, f)
}

func rewriteGoList(list []ast.Stmt, need *bool) {
	for i, st := range list {
		if ls, ok := st.(*ast.LabeledStmt); ok {
			st = ls.Stmt
			_ = ls
		}
		gs, ok := st.(*ast.GoStmt)
		if !ok {
			continue
		}
		*need = true
		call := &ast.CallExpr{
			Fun: &ast.SelectorExpr{X: ast.NewIdent("vsched"), Sel: ast.NewIdent("Go")},
			Args: []ast.Expr{&ast.FuncLit{
				Type: &ast.FuncType{Params: &ast.FieldList{}},
				Body: &ast.BlockStmt{List: []ast.Stmt{&ast.ExprStmt{X: gs.Call}}},
			}},
		}
		list[i] = &ast.ExprStmt{X: call}
	}
}

func addImport(f *ast.File, name, path string) {
	spec := &ast.ImportSpec{Name: ast.NewIdent(name), Path: &ast.BasicLit{Kind: token.STRING, Value: strconv.Quote(path)}}
	decl := &ast.GenDecl{Tok: token.IMPORT, Specs: []ast.Spec{spec}}
	// imports must come first
	f.Decls = append([]ast.Decl{decl}, f.Decls...)
	f.Imports = append(f.Imports, spec)
}
