// Package deepdump renders a canonical, structural dump of an arbitrary Go
// object graph, including unexported fields, for use as a state fingerprint.
//
// Rules: maps are emitted with sorted keys; pointers are followed and named by
// first-visit order (so two graphs that are isomorphic dump identically);
// sync primitives, loggers, functions, channels and atomics of well-known
// "noise" types are skipped; time.Time is emitted relative to Options.Now (or as
// "T" when Options.IgnoreTimes is set); fields named in Options.SkipFields
// ("pkg.Type.field" or "Type.field") are omitted.
package deepdump

import (
	"fmt"
	"math/big"
	"net"
	"reflect"
	"sort"
	"strings"
	"time"
	"unsafe"
)

type Options struct {
	Now         time.Time
	IgnoreTimes bool
	// SkipFields: "Type.field" entries to omit.
	SkipFields map[string]bool
	// SkipTypes: type names (pkgpath.Name or Name) omitted wholesale.
	SkipTypes map[string]bool
	// MaxDepth guards against runaway graphs (default 64).
	MaxDepth int
}

var defaultSkipTypes = map[string]bool{
	"sync.Mutex": true, "sync.RWMutex": true, "sync.WaitGroup": true, "sync.Once": true,
	"sync.Cond": true, "sync.Pool": true, "sync.noCopy": true,
	"vsync.Mutex": true, "vsync.RWMutex": true, "vsync.WaitGroup": true, "vsync.Once": true,
	"zap.Logger": true, "zap.SugaredLogger": true,
	"context.cancelCtx": true, "context.emptyCtx": true, "context.backgroundCtx": true,
	"time.Ticker": true, "time.Timer": true, "time.Location": true,
	"rand.Rand": true,
}

type dumper struct {
	o    Options
	sb   strings.Builder
	seen map[unsafe.Pointer]int
}

// Dump returns the canonical dump of v.
func Dump(v any, o Options) string {
	if o.MaxDepth == 0 {
		o.MaxDepth = 64
	}
	d := &dumper{o: o, seen: map[unsafe.Pointer]int{}}
	d.val(reflect.ValueOf(v), 0)
	return d.sb.String()
}

func typeName(t reflect.Type) string {
	if t.Name() == "" {
		return t.String()
	}
	p := t.PkgPath()
	if i := strings.LastIndex(p, "/"); i >= 0 {
		p = p[i+1:]
	}
	if p == "" {
		return t.Name()
	}
	return p + "." + t.Name()
}

func (d *dumper) skipType(t reflect.Type) bool {
	n := typeName(t)
	if defaultSkipTypes[n] || d.o.SkipTypes[n] {
		return true
	}
	if strings.HasPrefix(n, "atomic.") && false {
		return true
	}
	return false
}

var (
	timeType  = reflect.TypeOf(time.Time{})
	bigType   = reflect.TypeOf(big.Int{})
	ipType    = reflect.TypeOf(net.IP{})
	ipNetType = reflect.TypeOf(net.IPNet{})
	hwType    = reflect.TypeOf(net.HardwareAddr{})
)

// addressable copies a non-addressable struct/array value so that its
// unexported fields can be read through access().
func addressable(v reflect.Value) reflect.Value {
	if !v.IsValid() || v.CanAddr() {
		return v
	}
	switch v.Kind() {
	case reflect.Struct, reflect.Array:
		if v.CanInterface() {
			nv := reflect.New(v.Type()).Elem()
			nv.Set(v)
			return nv
		}
	}
	return v
}

func access(v reflect.Value) reflect.Value {
	// make unexported fields readable
	if v.CanInterface() {
		return v
	}
	if v.CanAddr() {
		return reflect.NewAt(v.Type(), unsafe.Pointer(v.UnsafeAddr())).Elem()
	}
	return v
}

func (d *dumper) val(v reflect.Value, depth int) {
	if !v.IsValid() {
		d.sb.WriteString("nil")
		return
	}
	if depth > d.o.MaxDepth {
		d.sb.WriteString("<deep>")
		return
	}
	t := v.Type()
	if d.skipType(t) {
		d.sb.WriteString("_")
		return
	}
	switch t {
	case timeType:
		v = access(v)
		if v.CanInterface() {
			tm := v.Interface().(time.Time)
			switch {
			case tm.IsZero():
				d.sb.WriteString("T0")
			case d.o.IgnoreTimes:
				d.sb.WriteString("T")
			default:
				fmt.Fprintf(&d.sb, "T%+d", tm.Sub(d.o.Now).Milliseconds())
			}
			return
		}
	case bigType:
		v = access(v)
		if v.CanAddr() {
			b := v.Addr().Interface().(*big.Int)
			d.sb.WriteString("big:" + b.String())
			return
		}
	case ipType:
		v = access(v)
		if v.CanInterface() {
			ip := v.Interface().(net.IP)
			if ip == nil {
				d.sb.WriteString("ip:nil")
			} else {
				d.sb.WriteString("ip:" + ip.String())
			}
			return
		}
	case hwType:
		v = access(v)
		if v.CanInterface() {
			d.sb.WriteString("hw:" + v.Interface().(net.HardwareAddr).String())
			return
		}
	case ipNetType:
		v = access(v)
		if v.CanAddr() {
			n := v.Addr().Interface().(*net.IPNet)
			d.sb.WriteString("net:" + n.String())
			return
		}
	}
	switch v.Kind() {
	case reflect.Bool:
		fmt.Fprintf(&d.sb, "%t", v.Bool())
	case reflect.Int, reflect.Int8, reflect.Int16, reflect.Int32, reflect.Int64:
		fmt.Fprintf(&d.sb, "%d", v.Int())
	case reflect.Uint, reflect.Uint8, reflect.Uint16, reflect.Uint32, reflect.Uint64, reflect.Uintptr:
		fmt.Fprintf(&d.sb, "%d", v.Uint())
	case reflect.Float32, reflect.Float64:
		fmt.Fprintf(&d.sb, "%g", v.Float())
	case reflect.Complex64, reflect.Complex128:
		fmt.Fprintf(&d.sb, "%v", v.Complex())
	case reflect.String:
		fmt.Fprintf(&d.sb, "%q", v.String())
	case reflect.Func, reflect.Chan, reflect.UnsafePointer:
		if v.IsNil() {
			d.sb.WriteString("nil")
		} else {
			d.sb.WriteString("_")
		}
	case reflect.Interface:
		if v.IsNil() {
			d.sb.WriteString("nil")
			return
		}
		e := addressable(access(v).Elem())
		d.sb.WriteString("(" + typeName(e.Type()) + ")")
		d.val(e, depth+1)
	case reflect.Pointer:
		if v.IsNil() {
			d.sb.WriteString("nil")
			return
		}
		if d.skipType(t.Elem()) {
			d.sb.WriteString("&_")
			return
		}
		p := v.UnsafePointer()
		if id, ok := d.seen[p]; ok {
			fmt.Fprintf(&d.sb, "&#%d", id)
			return
		}
		id := len(d.seen)
		d.seen[p] = id
		fmt.Fprintf(&d.sb, "&#%d=", id)
		d.val(v.Elem(), depth+1)
	case reflect.Slice:
		if v.IsNil() {
			d.sb.WriteString("nil")
			return
		}
		if t.Elem().Kind() == reflect.Uint8 {
			v = access(v)
			fmt.Fprintf(&d.sb, "x%x", v.Bytes())
			return
		}
		d.sb.WriteString("[")
		for i := 0; i < v.Len(); i++ {
			if i > 0 {
				d.sb.WriteString(",")
			}
			d.val(v.Index(i), depth+1)
		}
		d.sb.WriteString("]")
	case reflect.Array:
		if t.Elem().Kind() == reflect.Uint8 {
			d.sb.WriteString("x")
			for i := 0; i < v.Len(); i++ {
				fmt.Fprintf(&d.sb, "%02x", v.Index(i).Uint())
			}
			return
		}
		d.sb.WriteString("[")
		for i := 0; i < v.Len(); i++ {
			if i > 0 {
				d.sb.WriteString(",")
			}
			d.val(v.Index(i), depth+1)
		}
		d.sb.WriteString("]")
	case reflect.Map:
		if v.IsNil() {
			d.sb.WriteString("nil")
			return
		}
		v = access(v)
		// values must be dumped in sorted key order so pointer numbering is canonical
		keys := v.MapKeys()
		ks := make([]string, len(keys))
		for i, k := range keys {
			kd := &dumper{o: d.o, seen: map[unsafe.Pointer]int{}}
			kd.val(addressable(k), depth+1)
			ks[i] = kd.sb.String()
		}
		idx := make([]int, len(keys))
		for i := range idx {
			idx[i] = i
		}
		sort.Slice(idx, func(a, b int) bool { return ks[idx[a]] < ks[idx[b]] })
		d.sb.WriteString("{")
		for n, i := range idx {
			if n > 0 {
				d.sb.WriteString(",")
			}
			d.sb.WriteString(ks[i])
			d.sb.WriteString(":")
			d.val(addressable(v.MapIndex(keys[i])), depth+1)
		}
		d.sb.WriteString("}")
	case reflect.Struct:
		tn := typeName(t)
		short := t.Name()
		d.sb.WriteString(tn + "{")
		first := true
		for i := 0; i < t.NumField(); i++ {
			f := t.Field(i)
			if d.o.SkipFields[tn+"."+f.Name] || d.o.SkipFields[short+"."+f.Name] {
				continue
			}
			if d.skipType(f.Type) || (f.Type.Kind() == reflect.Pointer && d.skipType(f.Type.Elem())) {
				continue
			}
			if f.Type.Kind() == reflect.Func || f.Type.Kind() == reflect.Chan {
				continue
			}
			if !first {
				d.sb.WriteString(",")
			}
			first = false
			d.sb.WriteString(f.Name + ":")
			d.val(access(v.Field(i)), depth+1)
		}
		d.sb.WriteString("}")
	default:
		fmt.Fprintf(&d.sb, "?%s", v.Kind())
	}
}
