# sourced by every script: offline Go 1.25 toolchain (the one the repository's baseline uses)
export PATH=/root/go/pkg/mod/golang.org/toolchain@v0.0.1-go1.25.0.linux-amd64/bin:$PATH
export GOTOOLCHAIN=local GOFLAGS=-mod=mod GOPROXY=off GOSUMDB=off
export VERIF_ROOT=/verif
export VERIF_REPO=${VERIF_REPO:-/repo}
