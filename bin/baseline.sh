#!/bin/bash
# Repository baseline with the guard OFF (no overlay, no tags): /repo contains no hook code.
. /verif/bin/env.sh
cd /repo && go test -vet=off -count=1 -timeout 25m ./...
