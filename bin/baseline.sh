#!/bin/bash
# Repository baseline with the guard OFF (no overlay, no tags): /repo contains no hook code.
# Runs the repository's whole test suite exactly as the pinned baseline does (go test -vet=off -count=1 ./...) and
# exits 0 iff every test listed as stable_pass in /root/.vp/BASELINE.json passes (the baseline itself records 6 tests
# that always fail in this sandbox - pkg/routing needs a routable network - and 1 flaky one; they are not demanded).
exec /verif/bin/basecmp /repo ./...
