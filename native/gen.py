#!/usr/bin/env python3
"""gen.py <bpf-dir> <prog.c> -> C include with the map registry and entry points of that program
(maps declared in the file itself and in local headers it includes)."""
import re, sys, os
bdir, prog = sys.argv[1], sys.argv[2]
src = open(os.path.join(bdir, prog)).read()
texts = [src]
for inc in re.findall(r'#include\s+"([^"]+)"', src):
    p = os.path.join(bdir, inc)
    if os.path.exists(p):
        texts.append(open(p).read())
out = []
maps = []
for t in texts:
    for m in re.finditer(r'struct\s*\{([^{}]*)\}\s*(\w+)\s+SEC\("\.maps"\)\s*;', t):
        body, name = m.group(1), m.group(2)
        has = lambda k: re.search(r'\b%s\b' % k, body) is not None
        ks = 'sizeof(*%s.key)' % name if re.search(r'__type\(\s*key\b', body) else ('sizeof(*%s.key_size)/sizeof(int)' % name if has('key_size') else '0')
        vs = 'sizeof(*%s.value)' % name if re.search(r'__type\(\s*value\b', body) else ('sizeof(*%s.value_size)/sizeof(int)' % name if has('value_size') else '0')
        maps.append(name)
        out.append('  shim_register(&%s, "%s", sizeof(*%s.type)/sizeof(int), %s, %s, %s);' % (
            name, name, name, ks, vs, 'sizeof(*%s.max_entries)/sizeof(int)' % name if has('max_entries') else '0'))
progs = re.findall(r'SEC\("(xdp|tc[^"]*)"\)\s*int\s+(\w+)\s*\(\s*struct\s+(\w+)', src)
print('static void shim_register_all(void) {')
print('\n'.join(out))
print('}')
print('static struct shim_prog shim_progs[] = {')
for sec, name, ctx in progs:
    kind = 0 if ctx == 'xdp_md' else 1
    print('  {"%s", "%s", %d, (int (*)(void *))%s},' % (name, sec, kind, name))
print('};')
print('#define SHIM_NPROGS %d' % len(progs))
if not maps or not progs:
    sys.stderr.write('gen.py: no maps or no programs found in %s\n' % prog); sys.exit(2)
