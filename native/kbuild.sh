#!/bin/bash
# usage: kbuild.sh <outdir> [repo] — compiles bpf/*.c of the repo's CURRENT tree to real BPF objects
# (clang -target bpf, minimal helper header in native/kbpf) for loading through the running kernel's verifier.
set -eu
here=$(cd "$(dirname "$0")" && pwd)
out=${1:?outdir}; repo=${2:-${VERIF_REPO:-/repo}}
mkdir -p "$out"
for src in "$repo"/bpf/*.c; do
  p=$(basename "$src" .c)
  clang -O2 -g -target bpf -D__x86_64__ -Wno-everything -I "$here/kbpf" -I /usr/include/x86_64-linux-gnu -I "$repo/bpf" -c "$src" -o "$out/$p.o"
done
