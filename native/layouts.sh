#!/bin/bash
# usage: layouts.sh <outdir> [repo] — writes <outdir>/layout_<prog>.txt (clang record layouts of every struct
# declared in bpf/<prog>.c and the local headers it includes) and <outdir>/maps_<prog>.json (map name -> key/value C types)
set -eu
here=$(cd "$(dirname "$0")" && pwd)
out=${1:?outdir}; repo=${2:-${VERIF_REPO:-/repo}}
mkdir -p "$out"
for src in "$repo"/bpf/*.c; do
  p=$(basename "$src" .c)
  python3 - "$repo/bpf" "$p" "$out" <<'PY'
import re, sys, os, json
bdir, p, out = sys.argv[1:4]
src = open(os.path.join(bdir, p + '.c')).read()
texts = [src] + [open(os.path.join(bdir, i)).read() for i in re.findall(r'#include\s+"([^"]+)"', src) if os.path.exists(os.path.join(bdir, i))]
structs = []
maps = {}
for t in texts:
    structs += re.findall(r'^struct\s+(\w+)\s*\{', t, re.M)
    for m in re.finditer(r'struct\s*\{([^{}]*)\}\s*(\w+)\s+SEC\("\.maps"\)\s*;', t):
        body, name = m.group(1), m.group(2)
        k = re.search(r'__type\(\s*key\s*,\s*([^)]+)\)', body); v = re.search(r'__type\(\s*value\s*,\s*([^)]+)\)', body)
        ty = re.search(r'__uint\(\s*type\s*,\s*(\w+)\)', body)
        maps[name] = {'key': k.group(1).strip() if k else None, 'value': v.group(1).strip() if v else None, 'type': ty.group(1) if ty else None}
json.dump(maps, open(os.path.join(out, 'maps_%s.json' % p), 'w'), indent=1)
with open(os.path.join(out, 'probe_%s.c' % p), 'w') as f:
    f.write('#include "%s.c"\n' % p)
    for s in sorted(set(structs)):
        f.write('unsigned long __sz_%s = sizeof(struct %s);\n' % (s, s))
PY
  clang -std=gnu11 -I "$here/bpfshim" -I "$repo/bpf" -Wno-everything -fsyntax-only -Xclang -fdump-record-layouts "$out/probe_$p.c" > "$out/layout_$p.txt"
done
