#!/bin/bash
# usage: build.sh <outdir> [repo]   builds drv_<prog> and drv_<prog>_asan for every bpf/*.c of the repo's CURRENT tree
# ONLY=<prog> restricts the build to one program, NOASAN=1 skips the sanitizer variant
set -eu
here=$(cd "$(dirname "$0")" && pwd)
out=${1:?outdir}; repo=${2:-${VERIF_REPO:-/repo}}
mkdir -p "$out"
pids=()
for src in "$repo"/bpf/*.c; do
  p=$(basename "$src" .c)
  if [ -n "${ONLY:-}" ] && [ "$p" != "$ONLY" ]; then continue; fi
  python3 "$here/gen.py" "$repo/bpf" "$p.c" > "$out/gen_$p.inc"
  common=(-std=gnu11 -g -I "$here/bpfshim" -I "$repo/bpf" -I "$here" -I "$out" -DPROG_SRC="\"$p.c\"" -DGEN_INC="\"gen_$p.inc\"" -DWITH_ENUM -DPROG_$p -Wno-everything "$here/driver.c")
  clang -O1 "${common[@]}" -o "$out/drv_$p" & pids+=($!)
  if [ -z "${NOASAN:-}" ]; then clang -O1 -fsanitize=address -fsanitize-recover=address "${common[@]}" -o "$out/drv_${p}_asan" & pids+=($!); fi
done
rc=0
for pid in "${pids[@]}"; do wait $pid || rc=2; done
exit $rc
