/* Native-compilation shim for <bpf/bpf_helpers.h>: lets bpf/*.c be compiled
 * UNCHANGED by the host clang. Map declarations keep libbpf's BTF-style
 * encoding so key/value sizes and map type come from the C declarations. */
#ifndef VERIF_BPF_HELPERS_H
#define VERIF_BPF_HELPERS_H
#include <stddef.h>
#include <linux/types.h>
#include <linux/bpf.h>

#define SEC(name)
#define __uint(name, val) int (*name)[val]
#define __type(name, val) typeof(val) *name
#define __array(name, val) typeof(val) *name[]
#undef __always_inline
#define __always_inline inline __attribute__((always_inline))
#ifndef __noinline
#define __noinline __attribute__((noinline))
#endif

void *bpf_map_lookup_elem(void *map, const void *key);
long bpf_map_update_elem(void *map, const void *key, const void *value, __u64 flags);
long bpf_map_delete_elem(void *map, const void *key);
__u64 bpf_ktime_get_ns(void);
long bpf_xdp_adjust_tail(struct xdp_md *ctx, int delta);
long bpf_perf_event_output(void *ctx, void *map, __u64 flags, void *data, __u64 size);
void *bpf_ringbuf_reserve(void *ringbuf, __u64 size, __u64 flags);
void bpf_ringbuf_submit(void *data, __u64 flags);
void bpf_ringbuf_discard(void *data, __u64 flags);
#define bpf_printk(fmt, ...) ((void)0)
#endif
