#ifndef VERIF_BPF_ENDIAN_H
#define VERIF_BPF_ENDIAN_H
#include <linux/types.h>
/* little-endian host, as in production (x86-64 / arm64) */
#define bpf_htons(x) ((__u16)__builtin_bswap16((__u16)(x)))
#define bpf_ntohs(x) ((__u16)__builtin_bswap16((__u16)(x)))
#define bpf_htonl(x) ((__u32)__builtin_bswap32((__u32)(x)))
#define bpf_ntohl(x) ((__u32)__builtin_bswap32((__u32)(x)))
#define bpf_cpu_to_be64(x) __builtin_bswap64(x)
#define bpf_be64_to_cpu(x) __builtin_bswap64(x)
#endif
