/* Engine C driver: one translation unit per kernel program source.
 *   clang -O1 -I bpfshim -I <repo>/bpf -DPROG_SRC='"dhcp_fastpath.c"' -DGEN_INC='"gen_dhcp.inc"' driver.c
 * The program source is #included UNCHANGED; helpers and maps are provided by
 * this file. Two front ends: a binary stdin/stdout protocol (used from Go) and
 * `--enum` (pure-C frame enumerator for C07, see enum.inc). */
#define _GNU_SOURCE
#include <stdio.h>
#include <stdlib.h>
#include <string.h>
#include <stdint.h>
#include <signal.h>
#include <setjmp.h>
#include <unistd.h>
#include <errno.h>
#include <sys/mman.h>

#include PROG_SRC

#ifdef __has_feature
#if __has_feature(address_sanitizer)
#define SHIM_ASAN 1
#include <sanitizer/asan_interface.h>
#endif
#endif

/* ------------------------------------------------------------------ maps */
struct shim_entry {
	unsigned char *key, *val;
	int dead;
	struct shim_entry *next;
};
struct shim_map {
	void *obj;
	const char *name;
	unsigned type, ksz, vsz, maxent;
	struct shim_entry *head, *tail;
	unsigned count;
};
struct shim_prog {
	const char *name, *sec;
	int kind; /* 0 xdp, 1 tc */
	int (*fn)(void *);
};
#define SHIM_MAXMAPS 32
static struct shim_map shim_maps[SHIM_MAXMAPS];
static int shim_nmaps;
static __u64 shim_now_ns;
static unsigned shim_touch; /* successful lookups outside per-CPU arrays + updates + deletes: 0 => the run cannot have changed map state */
static unsigned shim_events;           /* perf/ringbuf records emitted in the current run */
static unsigned char shim_last_event[256];
static unsigned shim_last_event_len;

static void shim_register(void *obj, const char *name, unsigned type, unsigned ksz, unsigned vsz, unsigned maxent) {
	struct shim_map *m = &shim_maps[shim_nmaps++];
	m->obj = obj; m->name = name; m->type = type; m->ksz = ksz; m->vsz = vsz; m->maxent = maxent;
}
static struct shim_map *shim_find(void *obj) {
	for (int i = 0; i < shim_nmaps; i++)
		if (shim_maps[i].obj == obj) return &shim_maps[i];
	fprintf(stderr, "shim: unknown map object %p\n", obj);
	abort();
}
static struct shim_map *shim_find_name(const char *name) {
	for (int i = 0; i < shim_nmaps; i++)
		if (!strcmp(shim_maps[i].name, name)) return &shim_maps[i];
	return NULL;
}
static int shim_is_array(struct shim_map *m) {
	return m->type == BPF_MAP_TYPE_ARRAY || m->type == BPF_MAP_TYPE_PERCPU_ARRAY;
}
static struct shim_entry *shim_new_entry(struct shim_map *m, const void *key) {
	struct shim_entry *e = calloc(1, sizeof(*e));
	e->key = malloc(m->ksz ? m->ksz : 1);
	e->val = calloc(1, m->vsz ? m->vsz : 1);
	memcpy(e->key, key, m->ksz);
	if (m->tail) m->tail->next = e; else m->head = e;
	m->tail = e;
	m->count++;
	return e;
}
static int lpm_match(const unsigned char *ek, const unsigned char *kk, unsigned ksz) {
	__u32 epl, kpl;
	memcpy(&epl, ek, 4); memcpy(&kpl, kk, 4);
	if (epl > kpl || epl > (ksz - 4) * 8) return -1;
	for (unsigned b = 0; b < epl; b++) {
		unsigned byte = 4 + b / 8, bit = 7 - b % 8;
		if (((ek[byte] >> bit) & 1) != ((kk[byte] >> bit) & 1)) return -1;
	}
	return (int)epl;
}
static struct shim_entry *shim_lookup_entry(struct shim_map *m, const void *key, int exact) {
	if (m->type == BPF_MAP_TYPE_LPM_TRIE && !exact) {
		struct shim_entry *best = NULL; int bl = -1;
		for (struct shim_entry *e = m->head; e; e = e->next) {
			if (e->dead) continue;
			int l = lpm_match(e->key, key, m->ksz);
			if (l > bl) { bl = l; best = e; }
		}
		return best;
	}
	for (struct shim_entry *e = m->head; e; e = e->next)
		if (!e->dead && !memcmp(e->key, key, m->ksz)) return e;
	return NULL;
}
void *bpf_map_lookup_elem(void *map, const void *key) {
	struct shim_map *m = shim_find(map);
	if (shim_is_array(m)) {
		__u32 idx; memcpy(&idx, key, 4);
		if (idx >= m->maxent) return NULL;
		struct shim_entry *e = shim_lookup_entry(m, key, 1);
		if (!e) e = shim_new_entry(m, key); /* array slots always exist, zero-filled */
		if (m->type != BPF_MAP_TYPE_PERCPU_ARRAY) shim_touch++;
		return e->val;
	}
	if (m->type == BPF_MAP_TYPE_PERF_EVENT_ARRAY || m->type == BPF_MAP_TYPE_RINGBUF) return NULL;
	struct shim_entry *e = shim_lookup_entry(m, key, 0);
	if (e) shim_touch++;
	return e ? e->val : NULL;
}
long bpf_map_update_elem(void *map, const void *key, const void *value, __u64 flags) {
	struct shim_map *m = shim_find(map);
	shim_touch++;
	if (shim_is_array(m)) {
		__u32 idx; memcpy(&idx, key, 4);
		if (idx >= m->maxent) return -E2BIG;
		if (flags == BPF_NOEXIST) return -EEXIST;
	}
	struct shim_entry *e = shim_lookup_entry(m, key, 1);
	if (e) {
		if (flags == BPF_NOEXIST) return -EEXIST;
		memcpy(e->val, value, m->vsz);
		return 0;
	}
	if (flags == BPF_EXIST && !shim_is_array(m)) return -ENOENT;
	unsigned live = 0;
	for (struct shim_entry *x = m->head; x; x = x->next) if (!x->dead) live++;
	if (m->maxent && live >= m->maxent) {
		if (m->type == BPF_MAP_TYPE_LRU_HASH) {
			for (struct shim_entry *x = m->head; x; x = x->next) if (!x->dead) { x->dead = 1; break; }
		} else return -E2BIG;
	}
	e = shim_new_entry(m, key);
	memcpy(e->val, value, m->vsz);
	return 0;
}
long bpf_map_delete_elem(void *map, const void *key) {
	struct shim_map *m = shim_find(map);
	shim_touch++;
	if (shim_is_array(m)) return -EINVAL;
	struct shim_entry *e = shim_lookup_entry(m, key, 1);
	if (!e) return -ENOENT;
	e->dead = 1; /* storage stays valid, like RCU-protected kernel map values */
	return 0;
}
static void shim_clear_map(struct shim_map *m) {
	struct shim_entry *e = m->head;
	while (e) { struct shim_entry *n = e->next; free(e->key); free(e->val); free(e); e = n; }
	m->head = m->tail = NULL; m->count = 0;
}
static void shim_clear_all(void) { for (int i = 0; i < shim_nmaps; i++) shim_clear_map(&shim_maps[i]); }

__u64 bpf_ktime_get_ns(void) { return shim_now_ns; }
long bpf_perf_event_output(void *ctx, void *map, __u64 flags, void *data, __u64 size) {
	(void)ctx; (void)flags; shim_find(map);
	shim_events++;
	shim_last_event_len = size > sizeof(shim_last_event) ? sizeof(shim_last_event) : (unsigned)size;
	memcpy(shim_last_event, data, shim_last_event_len);
	return 0;
}
static unsigned char shim_rb[4096];
void *bpf_ringbuf_reserve(void *ringbuf, __u64 size, __u64 flags) {
	(void)flags; shim_find(ringbuf);
	if (size > sizeof(shim_rb)) return NULL;
	memset(shim_rb, 0, sizeof(shim_rb));
	shim_last_event_len = (unsigned)size;
	return shim_rb;
}
void bpf_ringbuf_submit(void *data, __u64 flags) {
	(void)flags; shim_events++;
	unsigned n = shim_last_event_len > sizeof(shim_last_event) ? sizeof(shim_last_event) : shim_last_event_len;
	memcpy(shim_last_event, data, n); shim_last_event_len = n;
}
void bpf_ringbuf_discard(void *data, __u64 flags) { (void)data; (void)flags; }

#include GEN_INC

/* ------------------------------------------------------------ packet arena
 * arena: [guard page][ ARENA usable bytes ][guard page]; MAP_32BIT so that the
 * __u32 data/data_end context fields hold real pointers. placement 0: frame END
 * flush against the upper guard; placement 1: frame START flush against the
 * lower guard. */
#define ARENA (16 * 4096)
static unsigned char *arena_lo; /* first usable byte */
static unsigned char *cur_data, *cur_end;
static int cur_placement;
static void arena_init(void) {
	size_t pg = 4096;
	unsigned char *p = mmap(NULL, ARENA + 2 * pg, PROT_READ | PROT_WRITE, MAP_PRIVATE | MAP_ANONYMOUS | MAP_32BIT, -1, 0);
	if (p == MAP_FAILED) { perror("mmap"); exit(3); }
	mprotect(p, pg, PROT_NONE);
	mprotect(p + pg + ARENA, pg, PROT_NONE);
	arena_lo = p + pg;
}
static void arena_poison(void) {
#ifdef SHIM_ASAN
	ASAN_POISON_MEMORY_REGION(arena_lo, ARENA);
	if (cur_end > cur_data) ASAN_UNPOISON_MEMORY_REGION(cur_data, cur_end - cur_data);
#endif
}
static void arena_place(const unsigned char *frame, unsigned len, int placement) {
	cur_placement = placement;
#ifdef SHIM_ASAN
	ASAN_UNPOISON_MEMORY_REGION(arena_lo, ARENA);
#endif
	if (placement == 0) cur_data = arena_lo + ARENA - len; else cur_data = arena_lo;
	cur_end = cur_data + len;
	memcpy(cur_data, frame, len);
	arena_poison();
}
/* adjust_tail keeps the chosen flush placement: with placement 0 the frame is
 * moved so that the new end is again flush against the guard (the program's
 * old packet pointers are invalid after the call, exactly as in the kernel). */
static struct xdp_md *cur_xdp;
static int shim_fail_adjust_tail; /* environment deviation: the helper refuses (no tailroom) */
static unsigned shim_adjust_calls;
long bpf_xdp_adjust_tail(struct xdp_md *ctx, int delta) {
	shim_adjust_calls++;
	if (shim_fail_adjust_tail) return -EINVAL;
	long len = cur_end - cur_data, nlen = len + delta;
	if (nlen < 14 || nlen > 4096 - 256 - 320) return -EINVAL; /* ETH_HLEN .. frame size minus headroom and shared info */
#ifdef SHIM_ASAN
	ASAN_UNPOISON_MEMORY_REGION(arena_lo, ARENA);
#endif
	if (cur_placement == 0) {
		unsigned char *nd = arena_lo + ARENA - nlen;
		memmove(nd, cur_data, len < nlen ? len : nlen);
		if (nlen > len) memset(nd + len, 0, nlen - len);
		cur_data = nd; cur_end = nd + nlen;
	} else {
		if (nlen > len) memset(cur_end, 0, nlen - len);
		cur_end = cur_data + nlen;
	}
	ctx->data = (__u32)(unsigned long)cur_data;
	ctx->data_end = (__u32)(unsigned long)cur_end;
	arena_poison();
	return 0;
}

/* ------------------------------------------------------------ running */
static sigjmp_buf fault_jmp;
static volatile int fault_armed;
static volatile unsigned long fault_addr;
static volatile int asan_reports;
static void on_fault(int sig, siginfo_t *si, void *uc) {
	(void)uc;
	if (!fault_armed) { signal(sig, SIG_DFL); raise(sig); return; }
	fault_addr = (unsigned long)si->si_addr;
	siglongjmp(fault_jmp, sig);
}
#ifdef SHIM_ASAN
static void on_asan(const char *report) { (void)report; asan_reports++; }
#endif

struct run_result {
	int verdict;
	int fault;            /* 0 none, signal number, or 1000 = sanitizer report */
	unsigned long fault_addr;
	unsigned len;         /* frame length after the run */
	unsigned char *data;  /* frame after the run */
	unsigned priority;
	unsigned events;
};
static struct run_result run_prog(int pi, const unsigned char *frame, unsigned len, int placement) {
	struct run_result r; memset(&r, 0, sizeof(r));
	struct xdp_md xctx; struct __sk_buff sctx;
	arena_place(frame, len, placement);
	shim_events = 0;
	void *ctx;
	if (shim_progs[pi].kind == 0) {
		memset(&xctx, 0, sizeof(xctx));
		xctx.data = (__u32)(unsigned long)cur_data; xctx.data_end = (__u32)(unsigned long)cur_end;
		xctx.ingress_ifindex = 2; cur_xdp = &xctx; ctx = &xctx;
	} else {
		memset(&sctx, 0, sizeof(sctx));
		sctx.data = (__u32)(unsigned long)cur_data; sctx.data_end = (__u32)(unsigned long)cur_end;
		sctx.len = len; sctx.ifindex = 2;
		if (len >= 14) sctx.protocol = (__u32)frame[12] | ((__u32)frame[13] << 8);
		ctx = &sctx;
	}
	int before = asan_reports;
	int sig = sigsetjmp(fault_jmp, 0);
	if (sig == 0) {
		fault_armed = 1;
		r.verdict = shim_progs[pi].fn(ctx);
		fault_armed = 0;
	} else {
		fault_armed = 0;
		r.fault = sig; r.fault_addr = fault_addr; r.verdict = -9999;
	}
	if (asan_reports != before && !r.fault) r.fault = 1000;
#ifdef SHIM_ASAN
	ASAN_UNPOISON_MEMORY_REGION(arena_lo, ARENA);
#endif
	r.len = (unsigned)(cur_end - cur_data); r.data = cur_data; r.events = shim_events;
	if (shim_progs[pi].kind == 1) r.priority = sctx.priority;
	return r;
}

#ifdef WITH_ENUM
#include "enum.inc"
#endif

/* ------------------------------------------------------------ protocol */
static void rd(void *p, size_t n) {
	if (n && fread(p, 1, n, stdin) != n) exit(0);
}
static void wr(const void *p, size_t n) { fwrite(p, 1, n, stdout); }
static void wr32(__u32 v) { wr(&v, 4); }
static void wr64(__u64 v) { wr(&v, 8); }
static __u32 rd32(void) { __u32 v; rd(&v, 4); return v; }
static struct shim_map *rd_map(void) {
	unsigned char l; char name[64];
	rd(&l, 1); if (l >= sizeof(name)) exit(4);
	rd(name, l); name[l] = 0;
	struct shim_map *m = shim_find_name(name);
	if (!m) { fprintf(stderr, "shim: no map named %s\n", name); exit(4); }
	return m;
}
static void serve(void) {
	static unsigned char frame[65536], key[512], val[4096];
	for (;;) {
		int c = getchar();
		if (c == EOF || c == 'Q') return;
		switch (c) {
		case 'I':
			wr32(shim_nmaps);
			for (int i = 0; i < shim_nmaps; i++) {
				struct shim_map *m = &shim_maps[i];
				unsigned char l = strlen(m->name); wr(&l, 1); wr(m->name, l);
				wr32(m->type); wr32(m->ksz); wr32(m->vsz); wr32(m->maxent);
			}
			wr32(SHIM_NPROGS);
			for (int i = 0; i < SHIM_NPROGS; i++) {
				unsigned char l = strlen(shim_progs[i].name); wr(&l, 1); wr(shim_progs[i].name, l);
				wr32(shim_progs[i].kind);
			}
			break;
		case 'C': shim_clear_all(); wr32(0); break;
		case 'T': { __u64 t; rd(&t, 8); shim_now_ns = t; wr32(0); break; }
		case 'U': {
			struct shim_map *m = rd_map();
			__u32 kl = rd32(); if (kl > sizeof(key)) exit(4); rd(key, kl);
			__u32 vl = rd32(); if (vl > sizeof(val)) exit(4); rd(val, vl);
			__u64 fl; rd(&fl, 8);
			if (kl != m->ksz || vl != m->vsz) { wr32((__u32)-EINVAL); break; }
			wr32((__u32)bpf_map_update_elem(m->obj, key, val, fl));
			break;
		}
		case 'D': {
			struct shim_map *m = rd_map();
			__u32 kl = rd32(); if (kl > sizeof(key)) exit(4); rd(key, kl);
			if (kl != m->ksz) { wr32((__u32)-EINVAL); break; }
			wr32((__u32)bpf_map_delete_elem(m->obj, key));
			break;
		}
		case 'L': { /* exact lookup (control-plane view) */
			struct shim_map *m = rd_map();
			__u32 kl = rd32(); if (kl > sizeof(key)) exit(4); rd(key, kl);
			struct shim_entry *e = kl == m->ksz ? shim_lookup_entry(m, key, 1) : NULL;
			if (!e && kl == m->ksz && shim_is_array(m)) { void *v = bpf_map_lookup_elem(m->obj, key); if (v) e = shim_lookup_entry(m, key, 1); }
			wr32(e ? 1 : 0);
			if (e) { wr32(m->vsz); wr(e->val, m->vsz); }
			break;
		}
		case 'G': {
			struct shim_map *m = rd_map();
			__u32 n = 0;
			for (struct shim_entry *e = m->head; e; e = e->next) if (!e->dead) n++;
			wr32(n);
			for (struct shim_entry *e = m->head; e; e = e->next) if (!e->dead) { wr(e->key, m->ksz); wr(e->val, m->vsz); }
			break;
		}
		case 'R': {
			unsigned char pi, placement; rd(&pi, 1); rd(&placement, 1);
			__u32 len = rd32(); if (len > sizeof(frame) || pi >= SHIM_NPROGS) exit(4);
			rd(frame, len);
			struct run_result r = run_prog(pi, frame, len, placement);
			wr32((__u32)r.verdict); wr32((__u32)r.fault); wr64(r.fault_addr); wr32(r.priority); wr32(r.events);
			wr32(r.len); wr(r.data, r.len);
			break;
		}
#ifdef WITH_ENUM
		case 'S': { __u32 st = rd32(); if (st < NSTATES) { set_state(st); wr32(NSTATES); } else wr32(0); break; }
		case 'F': { /* n-th structured frame shape (full length); length 0 = no such shape */
			__u32 idx = rd32(); unsigned len = 0;
			if (!nth_shape(idx, frame, &len)) len = 0;
			wr32(len); wr(frame, len);
			break;
		}
#endif
		default: fprintf(stderr, "shim: bad command %d\n", c); exit(4);
		}
		fflush(stdout);
	}
}

int main(int argc, char **argv) {
	struct sigaction sa; memset(&sa, 0, sizeof(sa));
	sa.sa_sigaction = on_fault; sa.sa_flags = SA_SIGINFO | SA_NODEFER;
	sigaction(SIGSEGV, &sa, NULL); sigaction(SIGBUS, &sa, NULL); sigaction(SIGFPE, &sa, NULL);
#ifdef SHIM_ASAN
	__asan_set_error_report_callback(on_asan);
#endif
	arena_init();
	shim_register_all();
#ifdef WITH_ENUM
	if (argc > 1 && !strcmp(argv[1], "--enum")) return enum_main(argc - 2, argv + 2);
#endif
	(void)argc; (void)argv;
	serve();
	return 0;
}
