#ifndef __BPF_HELPERS__
#define __BPF_HELPERS__
#ifndef NULL
#define NULL ((void*)0)
#endif
#define SEC(name) __attribute__((section(name), used))
#define __uint(name, val) int (*name)[val]
#define __type(name, val) typeof(val) *name
#undef __always_inline
#define __always_inline inline __attribute__((always_inline))
static void *(*bpf_map_lookup_elem)(void *map, const void *key) = (void *) 1;
static long (*bpf_map_update_elem)(void *map, const void *key, const void *value, __u64 flags) = (void *) 2;
static long (*bpf_map_delete_elem)(void *map, const void *key) = (void *) 3;
static __u64 (*bpf_ktime_get_ns)(void) = (void *) 5;
static long (*bpf_perf_event_output)(void *ctx, void *map, __u64 flags, void *data, __u64 size) = (void *) 25;
static long (*bpf_xdp_adjust_tail)(struct xdp_md *xdp_md, int delta) = (void *) 65;
static void *(*bpf_ringbuf_reserve)(void *ringbuf, __u64 size, __u64 flags) = (void *) 131;
static void (*bpf_ringbuf_submit)(void *data, __u64 flags) = (void *) 132;
#endif
