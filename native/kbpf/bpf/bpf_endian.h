#ifndef __BPF_ENDIAN__
#define __BPF_ENDIAN__
#define bpf_htons(x) __builtin_bswap16(x)
#define bpf_ntohs(x) __builtin_bswap16(x)
#define bpf_htonl(x) __builtin_bswap32(x)
#define bpf_ntohl(x) __builtin_bswap32(x)
#endif
