#!/bin/bash
# Builds everything the checks need, offline, and warms the Go build cache.
set -u
here=$(cd "$(dirname "$0")" && pwd)
. "$here/bin/env.sh"
cd "$here/mc" && cp -n /repo/go.sum go.sum 2>/dev/null
go build $(go list ./... | grep -v /harness/) || exit 1
warm() {
  lc=$1
  work="$here/.work/setup.$lc"; mkdir -p "$work"
  "$here/bin/mkoverlay" "$lc" "$work" && (cd "$here/mc" && go test -c -tags verif -vet=off -overlay "$work/overlay.json" -o /dev/null "./harness/$lc") || echo "setup: warm build of $lc failed"
  rm -rf "$work"
}
export -f warm; export here
ls -d "$here"/mc/harness/c[0-9][0-9]/ | xargs -n1 basename | xargs -P 6 -I{} bash -c 'warm {}'
# native drivers and BPF objects are rebuilt by each check from the current tree; build once here to fail early
mkdir -p "$here/.work/setup-native" && "$here/native/build.sh" "$here/.work/setup-native" /repo && "$here/native/kbuild.sh" "$here/.work/setup-native/k" /repo || echo "setup: native build failed"
rm -rf "$here/.work/setup-native"
exit 0
