#!/bin/bash
# Builds everything the checks need, offline, and warms the Go build cache.
set -u
here=$(cd "$(dirname "$0")" && pwd)
. "$here/bin/env.sh"
cd "$here/mc" && cp -n /repo/go.sum go.sum 2>/dev/null
go build $(go list ./... | grep -v /harness/) || exit 1
warm() {
  lc=$1
  work="$here/.work/setup.$lc"; mkdir -p "$work"
  "$here/bin/mkoverlay" "$lc" "$work" && (cd "$here/mc" && go test -c -tags verif -vet=off -overlay "$work/overlay.json" -o /dev/null "./harness/$lc") || echo "setup: warm build of $lc failed"
  rm -rf "$work"
}
# harnesses whose free-running -race pass also runs in the quick tier: warm the -race build too
warm_race() {
  lc=$1
  work="$here/.work/setup.race.$lc"; mkdir -p "$work"
  "$here/bin/mkoverlay" "$lc" "$work" && (cd "$here/mc" && go test -c -race -tags verif -vet=off -overlay "$work/overlay.json" -o /dev/null "./harness/$lc") || echo "setup: warm -race build of $lc failed"
  rm -rf "$work"
}
export -f warm warm_race; export here
ls -d "$here"/mc/harness/c[0-9][0-9]/ | xargs -n1 basename | xargs -P 6 -I{} bash -c 'warm {}'
for f in "$here"/mc/harness/c[0-9][0-9]/RACE_QUICK; do [ -e "$f" ] && basename "$(dirname "$f")"; done | xargs -r -P 2 -I{} bash -c 'warm_race {}'
# native drivers and BPF objects are rebuilt by each check from the current tree; build once here to fail early
mkdir -p "$here/.work/setup-native" && "$here/native/build.sh" "$here/.work/setup-native" /repo && "$here/native/kbuild.sh" "$here/.work/setup-native/k" /repo || echo "setup: native build failed"
rm -rf "$here/.work/setup-native"
exit 0
