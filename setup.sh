#!/bin/bash
# Builds everything the checks need, offline, and warms the Go build cache.
set -u
here=$(cd "$(dirname "$0")" && pwd)
. "$here/bin/env.sh"
cd "$here/mc" && cp -n /repo/go.sum go.sum 2>/dev/null
go build ./... || exit 1
for d in "$here"/mc/harness/*/; do
  lc=$(basename "$d")
  work="$here/.work/setup.$lc"; mkdir -p "$work"
  "$here/bin/mkoverlay" "$lc" "$work" && (cd "$here/mc" && go test -c -tags verif -vet=off -overlay "$work/overlay.json" -o /dev/null "./harness/$lc") || echo "setup: warm build of $lc failed"
  rm -rf "$work"
done
[ -x "$here/native/build.sh" ] && "$here/native/build.sh"
exit 0
